#!/bin/bash
# setup_cmd: builds the harness binaries once so that the Go build cache is warm (offline, files on disk only).
cd "$(dirname "$0")" && exec ./check --build-only
