#!/bin/bash
# blind first measurement of round-5 seeds against a FROZEN copy of the harness (commit at freeze time) and a private clone
D=/dev/shm/dev6
export GOFLAGS=-mod=mod GOPROXY=off
if [ ! -d $D/verif ]; then
  mkdir -p $D; git clone -q /repo $D/repo
  mkdir -p $D/verif; (cd /verif && git archive HEAD check harness KNOWN_FINDINGS.txt tools replays corpus) | tar -x -C $D/verif
  sed -i "s#=> /repo#=> $D/repo#" $D/verif/harness/go.mod
  (cd /verif && git rev-parse --short HEAD) > $D/frozen-at
fi
id=$1; v=$2; shift 2
p=/tmp/wt6/$id/_seed/$v/patch.diff
[ -f $p ] || { echo "$id-$v no patch"; exit 2; }
cd $D/repo && git checkout -q -- . && git apply $p || { echo "$id-$v patch does not apply"; exit 2; }
res=""
for c in "$@"; do
  out=$(cd $D/verif && VERIF_REPO=$D/repo VERIF_NOSAVE=1 ./check $c quick 2>&1); rc=$?
  res="$res $c:rc=$rc"
done
git -C $D/repo checkout -q -- .
echo "$id-$v$res" | tee -a /dev/shm/blind6.results
