#!/bin/bash
# Runs every check of one tier sequentially and prints one status line each. usage: tools/run_all.sh quick|thorough [ids...]
cd "$(dirname "$0")/.."
tier=${1:-quick}; shift
ids=${@:-C01 C02 C03 C04 C05 C06 C07 C08 C09 C10 C11 C12 C13 C14 C15 C16 C17}
for p in $ids; do
  start=$(date +%s)
  out=$(./check $p $tier 2>&1); rc=$?
  echo "$p rc=$rc $(($(date +%s)-start))s $(echo "$out" | grep -a -c '^KNOWN-FINDING') known | $(echo "$out" | grep -a "^$p $tier" | tail -1)"
  if [ $rc -ne 0 ]; then echo "$out" | grep -a "VIOLATION\|INCONCLUSIVE" | head -5 | cut -c1-300; fi
done
