#!/usr/bin/env python3
"""Mutation testing of the checks (sensitivity measurement).

Works on a scratch copy of /repo and a scratch copy of /verif whose harness module replaces gtree with that copy, so that
neither /repo nor /verif is touched. For every syntactic mutant of the library sources that still compiles and still
passes the 57 pinned tests, the quick checks mapped to the mutated file are run; a mutant no check reports is a SURVIVOR.

  tools/mutate.py --scratch /dev/shm/mut [--files a.go,b.go] [--max N] [--seed S]
Results: <scratch>/results.tsv  (file, line, operator, status, killed-by, mutated line)
"""
import argparse
import json
import os
import random
import re
import shutil
import subprocess
import sys
import time

FILE_CHECKS = {
    "markdown/parser.go": ["C02", "C01", "C15", "C12", "C17"],
    "markdown/markdown.go": ["C02", "C01", "C10"],
    "node_generator.go": ["C02", "C01", "C12"],
    "root_generator.go": ["C02", "C01", "C12", "C14", "C10", "C11"],
    "stack.go": ["C01", "C02", "C03"],
    "node.go": ["C01", "C03", "C07", "C13", "C05"],
    "simple_tree_grower.go": ["C01", "C05", "C07", "C09", "C03"],
    "simple_tree_spreader.go": ["C01", "C04", "C09", "C14"],
    "simple_tree_grow_spreader.go": ["C03", "C14", "C13"],
    "simple_tree_mkdirer.go": ["C06", "C09", "C07"],
    "file_considerer.go": ["C06", "C09"],
    "simple_tree_verifier.go": ["C08"],
    "simple_tree_walker.go": ["C05", "C03"],
    "simple_tree.go": ["C01", "C02", "C03", "C06", "C08", "C05", "C09", "C07", "C14", "C13"],
    "tree_handler_programmably.go": ["C03", "C13", "C05"],
    "tree_handler.go": ["C03", "C01", "C06"],
    "tree.go": ["C10", "C01"],
    "config.go": ["C01", "C03", "C10", "C06", "C08"],
    "counter.go": ["C09", "C13", "C01"],
    "input_spliter.go": ["C10", "C11", "C12"],
    "pipeline_tree.go": ["C10", "C11", "C14"],
    "pipeline_tree_grower.go": ["C10", "C11"],
    "pipeline_tree_spreader.go": ["C10", "C11", "C14", "C09"],
    "pipeline_tree_mkdirer.go": ["C10", "C11", "C06"],
    "pipeline_tree_verifier.go": ["C10", "C11", "C08"],
    "pipeline_tree_walker.go": ["C10", "C11"],
    "wasm_root_generator.go": ["C17"],
    "wasm_tree.go": ["C17"],
    "wasm_tree_grower.go": ["C17"],
    "wasm_tree_handler.go": ["C17"],
    "wasm_tree_spreader.go": ["C17"],
    "cmd/gtree/main.go": ["C16"],
    "cmd/gtree/output.go": ["C16"],
    "cmd/gtree/mkdir.go": ["C16"],
    "cmd/gtree/verify.go": ["C16"],
    "cmd/gtree/error.go": ["C16"],
    "cmd/gtree/template.go": ["C16"],
}

OPERATORS = [
    ("eq-neq", re.compile(r"(?<![=!<>:])==(?!=)"), "!="),
    ("neq-eq", re.compile(r"!=(?!=)"), "=="),
    ("and-or", re.compile(r"&&"), "||"),
    ("or-and", re.compile(r"\|\|"), "&&"),
    ("lt-le", re.compile(r"(?<![<\-=])<(?![<\-=])"), "<="),
    ("gt-ge", re.compile(r"(?<![>\-=])>(?![>=])"), ">="),
    ("le-lt", re.compile(r"<=(?!=)"), "<"),
    ("ge-gt", re.compile(r">=(?!=)"), ">"),
    ("plus1-plus0", re.compile(r"\+ 1\b"), "+ 0"),
    ("minus1-minus0", re.compile(r"- 1\b"), "- 0"),
    ("pluseq1", re.compile(r"\+= 1\b"), "+= 2"),
    ("true-false", re.compile(r"\btrue\b"), "false"),
    ("false-true", re.compile(r"\bfalse\b"), "true"),
    ("not-removed", re.compile(r"\bif !(?=[a-zA-Z(])"), "if "),
    ("return-err-nil", re.compile(r"\breturn err\b$"), "return nil"),
    ("return-nil-nil-err", re.compile(r"\breturn nil, err\b$"), "return nil, nil"),
    ("continue-break", re.compile(r"^\s*continue$"), None),
    ("space-empty", re.compile(r'" "'), '""'),
    ("zero-one", re.compile(r"(?<![\w.])0\b(?!\.)"), "1"),
    ("one-zero", re.compile(r"(?<![\w.])1\b(?!\.)"), "0"),
]

SKIP_LINE = re.compile(r"verifPoint|^\s*//|^import|^\s*\"|^package|go:build|<-|chan |\[T |sitter|json:\"|yaml:\"|toml:\"|0o755|iota")


def sh(cmd, cwd=None, env=None, timeout=1800):
    try:
        p = subprocess.run(cmd, cwd=cwd, env=env, stdout=subprocess.PIPE, stderr=subprocess.STDOUT, text=True, timeout=timeout)
        return p.returncode, p.stdout
    except subprocess.TimeoutExpired:
        return 124, "timeout"


def goenv():
    env = dict(os.environ)
    env["GOFLAGS"] = "-mod=mod"
    env["GOPROXY"] = "off"
    env.pop("GOSUMDB", None)
    env.pop("GOTOOLCHAIN", None)
    return env


def setup(scratch):
    repo = os.path.join(scratch, "repo")
    verif = os.path.join(scratch, "verif")
    if not os.path.isdir(repo):
        os.makedirs(scratch, exist_ok=True)
        rc, out = sh(["git", "clone", "-q", "/repo", repo])
        assert rc == 0, out
    sh(["git", "checkout", "-q", "--", "."], cwd=repo)
    sh(["git", "pull", "-q"], cwd=repo)
    shutil.rmtree(verif, ignore_errors=True)
    os.makedirs(verif)
    for name in ("check", "harness", "KNOWN_FINDINGS.txt", "tools", "replays", "corpus"):
        src = os.path.join("/verif", name)
        dst = os.path.join(verif, name)
        if os.path.isdir(src):
            shutil.copytree(src, dst)
        else:
            shutil.copy2(src, dst)
    gomod = os.path.join(verif, "harness", "go.mod")
    s = open(gomod).read().replace("=> /repo", "=> " + repo)
    open(gomod, "w").write(s)
    return repo, verif


def baseline_ok(repo, verif):
    rc, out = sh([os.path.join(verif, "tools", "baseline.sh"), repo], env=goenv(), timeout=600)
    return rc == 0


def mutants_of(repo, rel):
    path = os.path.join(repo, rel)
    lines = open(path).read().split("\n")
    out = []
    for i, line in enumerate(lines):
        if SKIP_LINE.search(line) or not line.strip():
            continue
        code = line.split("//")[0] if '"' not in line else line
        for name, rx, repl in OPERATORS:
            for m in rx.finditer(code):
                # do not mutate inside string literals (rough: an odd number of quotes before the match)
                if name != "space-empty" and code[:m.start()].count('"') % 2 == 1:
                    continue
                if name == "continue-break":
                    new = line.replace("continue", "break")
                else:
                    new = line[:m.start()] + repl + line[m.end():]
                if new != line:
                    out.append((i, name, new))
    return out


def main():
    ap = argparse.ArgumentParser()
    ap.add_argument("--scratch", default="/dev/shm/mut")
    ap.add_argument("--files", default="")
    ap.add_argument("--max", type=int, default=100000)
    ap.add_argument("--seed", type=int, default=1)
    ap.add_argument("--per-file", type=int, default=40)
    ap.add_argument("--retest", default="", help="results.tsv of an earlier run: re-test its SURVIVED mutants with all 17 checks")
    args = ap.parse_args()
    repo, verif = setup(args.scratch)
    env = goenv()
    env["VERIF_NOSAVE"] = "1"
    if not baseline_ok(repo, verif):
        print("baseline fails on the unmutated copy", file=sys.stderr)
        sys.exit(2)
    files = [f for f in args.files.split(",") if f] or sorted(FILE_CHECKS)
    rnd = random.Random(args.seed)
    todo = []
    for rel in files:
        ms = mutants_of(repo, rel)
        rnd.shuffle(ms)
        for m in ms[:args.per_file]:
            todo.append((rel,) + m)
    rnd.shuffle(todo)
    todo = todo[:args.max]
    res_path = os.path.join(args.scratch, "results.tsv")
    if args.retest:
        todo = []
        for l in open(args.retest):
            p = l.rstrip("\n").split("\t")
            if len(p) >= 7 and p[3] == "SURVIVED":
                lines = open(os.path.join(repo, p[0])).read().split("\n")
                i = int(p[1]) - 1
                indent = lines[i][:len(lines[i]) - len(lines[i].lstrip())]
                if lines[i].strip() == p[5]:
                    todo.append((p[0], i, p[2], indent + p[6]))
        for k in FILE_CHECKS:
            FILE_CHECKS[k] = ["C%02d" % n for n in range(1, 18)]
        res_path = os.path.join(args.scratch, "retest.tsv")
    done = set()
    if os.path.exists(res_path):
        for l in open(res_path):
            p = l.rstrip("\n").split("\t")
            if len(p) >= 3:
                done.add((p[0], p[1], p[2]))
    print("%d mutants planned, %d already done" % (len(todo), len(done)), flush=True)
    with open(res_path, "a") as res:
        for n, (rel, i, name, new) in enumerate(todo):
            if (rel, str(i + 1), name) in done:
                continue
            path = os.path.join(repo, rel)
            orig = open(path).read()
            lines = orig.split("\n")
            old_line = lines[i]
            lines[i] = new
            open(path, "w").write("\n".join(lines))
            status, killer = "?", ""
            try:
                pkgs = [".", "./markdown", "./cmd/gtree"]
                rc, out = sh(["go", "build"] + pkgs, cwd=repo, env=env, timeout=300)
                if rc == 0 and rel.startswith("wasm_"):
                    rc, out = sh(["go", "build", "-tags", "tinywasm", "."], cwd=repo, env=env, timeout=300)
                if rc == 0 and not rel.startswith("wasm_") and not rel.startswith("cmd/"):
                    rc2, _ = sh(["go", "build", "-tags", "tinywasm", "."], cwd=repo, env=env, timeout=300)
                    rc = rc2 if rel in ("stack.go", "node.go", "config.go", "counter.go", "file_considerer.go", "node_generator.go", "input_spliter.go", "markdown/parser.go", "markdown/markdown.go") else 0
                if os.path.exists(os.path.join(repo, "gtree")):
                    os.remove(os.path.join(repo, "gtree"))
                if rc != 0:
                    status = "no-compile"
                elif not baseline_ok(repo, verif):
                    status = "killed-by-pinned-tests"
                else:
                    status = "SURVIVED"
                    for cid in FILE_CHECKS[rel]:
                        rc, out = sh([os.path.join(verif, "check"), cid, "quick"], cwd=verif, env=env, timeout=1500)
                        if rc == 1:
                            status, killer = "killed", cid
                            break
                        if rc == 2:
                            killer += cid + ":inconclusive "
            finally:
                open(path, "w").write(orig)
            res.write("\t".join([rel, str(i + 1), name, status, killer, old_line.strip(), new.strip()]) + "\n")
            res.flush()
            print("[%d/%d] %s:%d %s -> %s %s" % (n + 1, len(todo), rel, i + 1, name, status, killer), flush=True)


if __name__ == "__main__":
    main()
