#!/bin/bash
# devseed.sh <ID> <v> <checks...>: current /verif harness (copied) against a seed applied to the private clone
id=$1; v=$2; shift 2
cd /dev/shm/dev/repo && git checkout -q -- . && git apply /tmp/wt6/$id/_seed/$v/patch.diff || { echo "$id-$v apply failed"; exit 2; }
res=""
for c in "$@"; do
  out=$(cd /verif && KEEP=1 /verif/tools/dev_run.sh $c quick 2>&1); rc=$?
  res="$res $c:rc=$rc"
done
git -C /dev/shm/dev/repo checkout -q -- .
echo "$id-$v$res" | tee -a /dev/shm/devseed6.results
