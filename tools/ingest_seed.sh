#!/bin/bash
# Confirms a seeded change produced by a sub-agent and records it under /verif/seeded/.
# usage: tools/ingest_seed.sh <ID> <a|b> "<demo run command, run inside the worktree, {demo} = staged demo file>" [check ids...]
# 1. in the agent's worktree: clean -> demo passes; patch applied -> builds, pinned tests pass, demo fails
# 2. in /repo: apply, run the named checks (default: the property's own), undo
id=$1; v=$2; democmd=$3; shift 3
checks=${@:-$id}
wt=${WTBASE:-/tmp/wt}/$id; seed=$wt/_seed/$v
export GOFLAGS=-mod=mod GOPROXY=off
cd $wt || exit 2
git checkout -q -- . 
stage() { # copy the demo into place
  if [ -f $seed/demo_test.go ]; then cp $seed/demo_test.go $wt/zz_seed_demo_test.go; fi
}
unstage() { rm -f $wt/zz_seed_demo_test.go; }
stage
echo "--- demo on the unchanged worktree (must pass)"
( eval "$democmd" ) > /tmp/$id.$v.clean.log 2>&1; rc_clean=$?
echo "rc=$rc_clean"
git apply $seed/patch.diff || { echo "patch does not apply"; unstage; exit 2; }
echo "--- with the change: build, pinned tests, demo (must fail)"
go build . ./markdown ./cmd/gtree && go build -tags tinywasm . && go build -tags verif . ; rc_build=$?
rm -f gtree
/verif/tools/baseline.sh $wt | tail -1; rc_base=${PIPESTATUS[0]}
( eval "$democmd" ) > /tmp/$id.$v.seeded.log 2>&1; rc_seeded=$?
echo "build=$rc_build baseline=$rc_base demo rc=$rc_seeded"
git checkout -q -- .; unstage
git status --porcelain --untracked-files=no
if [ $rc_clean -ne 0 ] || [ $rc_build -ne 0 ] || [ $rc_base -ne 0 ] || [ $rc_seeded -eq 0 ]; then echo "NOT CONFIRMED"; exit 3; fi
echo "--- checks against the change in /repo"
res=$(SKIP_BASELINE=1 /verif/tools/try_seed.sh $seed/patch.diff $checks 2>&1); echo "$res" | grep -a "rc=\|VIOLATION-CANDIDATE" -A3 | cut -c1-300 | head -40
d=/verif/seeded/$id-$v; mkdir -p $d
cp $seed/patch.diff $d/patch.diff
[ -f $seed/demo_test.go ] && cp $seed/demo_test.go $d/demo_test.go.txt
[ -f $seed/main.go ] && cp $seed/main.go $d/demo_main.go.txt
for f in $seed/*; do case $(basename $f) in patch.diff|demo_test.go|main.go|NOTES.md) ;; *) [ -f $f ] && cp $f $d/$(basename $f).txt;; esac; done
cp $seed/NOTES.md $d/NOTES.md 2>/dev/null
python3 - "$id" "$v" "$democmd" "$checks" "$res" <<'PY'
import json,sys,re
id,v,democmd,checks,res=sys.argv[1:6]
caught=[m.group(1) for m in re.finditer(r'^\s+(C\d+) rc=1',res,re.M)]
missed=[m.group(1) for m in re.finditer(r'^\s+(C\d+) rc=0',res,re.M)]
meta=dict(property=id, variant=v, breaks=id, demo_command=democmd,
  confirmed=dict(demo_passes_without_change=True, builds_with_change=True, pinned_57_tests_pass_with_change=True, demo_fails_with_change=True),
  checks_run=checks.split(), caught_by=caught, missed_by=missed, tier="quick",
  needs_to_manifest="see NOTES.md")
json.dump(meta,open('/verif/seeded/%s-%s/meta.json'%(id,v),'w'),indent=1)
print('recorded: caught_by',caught,'missed_by',missed)
PY
