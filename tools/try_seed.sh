#!/bin/bash
# Applies a seeded change to /repo, runs the named checks (quick unless TIER is set) and undoes the change again.
# usage: tools/try_seed.sh <patch.diff> <ID> [<ID>...]      exit 0 iff at least one check reported a VIOLATION
patch=$(readlink -f "$1"); shift
cd /repo || exit 2
if [ -n "$(git status --porcelain --untracked-files=no)" ]; then echo "/repo is not clean"; exit 2; fi
git apply "$patch" || { echo "patch does not apply"; exit 2; }
trap 'git -C /repo checkout -- . ; git -C /repo status --porcelain --untracked-files=no' EXIT
if [ -z "$SKIP_BASELINE" ]; then /verif/tools/baseline.sh /repo | tail -1; fi
caught=1
for id in "$@"; do
  out=$(cd /verif && VERIF_NOSAVE=1 ./check $id ${TIER:-quick} 2>&1); rc=$?
  echo "  $id rc=$rc $(echo "$out" | grep -a -m1 'VIOLATION property')"
  if [ $rc -eq 1 ]; then caught=0; echo "$out" | grep -a -A4 -m1 "VIOLATION-CANDIDATE" | cut -c1-400; fi
done
exit $caught
