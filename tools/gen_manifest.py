#!/usr/bin/env python3
"""Writes /verif/MANIFEST.json from the per-property descriptions below (one entry per claimed property)."""
import json
import os

VERIF = os.path.dirname(os.path.dirname(os.path.abspath(__file__)))

PBT = "property-based testing"
D = {
    "C01": ("exploration",
            "Whole-output equality with an independent top-down renderer on the merged forest. Bounded-exhaustive: every ordered forest with <=5 (quick) / <=8 (thorough) nodes over {a,b} x 6 spellings x 4 branch tuples x both code paths (iterator and slice); random: rapid forests (depth-sequence generator, deep spines of 18..90 levels, wide forests beyond 4 KiB / 64 KiB, names of 4000..60000 bytes, bullets, blanks, Unicode, invalid UTF-8) x random spelling x random branch 4-tuple; thorough adds coverage-guided fuzzing of the generator (rapid.MakeFuzz). Also the mixed root notation (list roots, then # heading roots), names that spell the path of another node (a/a beside a > a, bounded-exhaustively) and parents with 31..300 children followed by a repeat of one of them. Documents of 17 MiB (quick) / 33 MiB (thorough); U+FFFD in names.",
            "trusts harness/model (Merge, Render, Spell), written from the statement; beyond the enumeration bound the domain is sampled",
            PBT + ": bounded-exhaustive enumeration + rapid generation against a reference-model oracle (whole-output equality)"),
    "C02": ("exploration",
            "Malformation classes are injected (never recognised) into well-formed spellings: injected => error (format errors must name the row), well-formed => nil and the complete result in text/JSON/YAML/TOML/dry-run/walk, simple and massive mode. Exhaustive over forests <=4/6 nodes x spelling panel x every class at every line (no-bullet with 4 marks incl. '#'); random beyond incl. documents larger than 4 KiB. Names containing / and % in malformed rows and in siblings that spell another node's path. The whole input as one row (100..65000 bytes, with/without terminator) through length-aware readers.",
            "the injector builds documents that are malformed by the statement whatever else they contain; in massive mode only 'some error' is required for format errors (which row is named depends on the schedule)",
            PBT + ": fault-injecting generator (one malformation per document) + completeness oracle against the reference renderer/decoders"),
    "C03": ("exploration",
            "Differential between the two API families: every From-Root operation on a tree built by a generated Add program (all linear extensions for small trees, repeated Adds whose result is reused as parent) equals the From-Markdown result on a spelling of the same tree; repeated Add returns the identical pointer; nil / non-root nodes give the sentinel errors with zero output, callbacks and filesystem effect for all 10 functions; deprecated aliases identical. Walker nodes kept by the caller are re-read after the walk, the same iterator value is ranged over twice, walks run with WithDryRun over hostile names (visit traces compared also when both sides fail), mkdir with a pre-existing root and a name containing /. The sentinel part also hands over a zero-value node.",
            "the Markdown side is the reference (its own correctness is C01/C04/C05/C06/C08); filesystem operations run in per-case jails on tmpfs",
            PBT + ": differential testing between API families over generated build programs (exhaustive linear extensions + rapid)"),
    "C04": ("exploration",
            "Round-trip through independent decoders (encoding/json with DisallowUnknownFields and one-value-per-line, yaml.v3 multi-document decoder with KnownFields, go-toml/v2) must give back the merged forest; hostile names (quotes, colons, hashes, backslashes, keywords, control characters, Unicode separators, BOM) at every node position of every small shape, random forests beyond. Part wide: a root with 255..10000 children (subtrees below all / every 100th / the trailing children), alone and between small roots; names that look like encoder escapes; earlier operations run as on a colour terminal; thorough: second opinion by python3 decoders. The writer may be a terminal (pseudo terminal); names wrapped in colour sequences. From-Root roots are also handed over as a copy by value (shared children).",
            "the decoders are the libraries gtree itself links (independent code paths: decoder vs encoder); names are valid UTF-8; the listed known finding (YAML + names containing a line break, yaml.v3) is excluded by construction and counted",
            PBT + ": round-trip oracle through independent decoders (exhaustive hostile-name placement + rapid)"),
    "C05": ("exploration",
            "Visit sequence compared fact by fact (Row, Branch, Name, Level, Path, HasChild) with the renderer's facts; exactly k+1 callbacks and the identical error object when the callback fails at k; no visit after an iterator break; rows equal the text output. Exhaustive over forests <=5/8 nodes x every stop position x all six entry points (incl. deprecated aliases); random adds deep spines, long names, earlier operations on the same tree and nodes added between creating and ranging over an iterator. The failing callback returns the harness sentinel or a standard-library value (fs.SkipAll, io.EOF, context.Canceled, bufio.ErrTooLong ...); kept nodes are re-read after the walk; the iterator is ranged over twice; a second walk of the same tree runs (or is abandoned) while the first is at visit k. The caller appends to its option slice after an iterator was made; walk / grow / another operation / walk again. The six facts of a visited node are read in a drawn permutation of their order and compared with a re-read after the walk.",
            "names are single valid path elements (the statement defines Path only for those)",
            PBT + ": reference-model oracle + differential (walk rows vs text output), exhaustive stop positions + rapid"),
    "C06": ("exploration",
            "Set algebra on before/after snapshots of a jail: created == node paths exactly, nothing else removed or changed, kind rule (childless + suffix => empty regular file), pre-existing root => ErrExistPath and no diff, OS refusals (256-byte name, target is a file, parent is a file) => error and no stray entries. Exhaustive over forests <=4/6 nodes over {a,b,ab} x 7 extension lists (incl. prefix-related and repeated extensions); random with extension lists cut from the generated names, and earlier operations (incl. a real Mkdir elsewhere) on the same From-Root tree. Part fs-fault: the target is a tmpfs with room for exactly k entries, for EVERY k from 0 to the number of node paths (ENOSPC at the k+1-th creation must be an error; what exists is a subset of the node paths of the right kind). Also 9..40 roots with hidden names, targets named ~t, odd target modes (0700, 1777, 2775), a root name held by a dangling symbolic link. A root name held by a symbolic link to itself; option values built under another working directory; over-long FILE nodes with unclean target spellings. The target may be spelled through a symbolic link followed by '..' (lnk/../target with a decoy where the kernel resolves it); the option list comes in a drawn order.",
            "tmpfs jail per case; OS refusals limited to what root can provoke on tmpfs (ENAMETOOLONG, ENOTDIR, ENOSPC through a mounted tmpfs when the process may mount; no EACCES); in massive mode only the success clauses are required (see known findings of C10)",
            PBT + ": filesystem snapshot diff oracle (set algebra) over generated forests, extension lists and directory states"),
    "C07": ("exploration",
            "Every Mkdir call runs in a chrooted worker; the snapshot covers the whole chroot, so anything touched outside <jail>/work/target is a violation ('..' chains of any length are harmless for the sandbox). Names that cannot be a single path element ('', '.', '..', containing '/', NUL) => error and, without massive, nothing created; benign controls must succeed. Exhaustive: every hostile name at every position of every shape <=4/5 nodes x {md, root} x {dry, real}. Part wide: roots with 200..4100 children and one hostile name; part big-input: documents of 70 kB..9 MB through *bytes.Reader / regular-file readers; seekable readers positioned behind an earlier hostile section; hostile names added after earlier operations on the same tree. Relative target spellings. Hostile names longer than PATH_MAX (4096 bytes).",
            "the worker process confines itself with chroot(2) (we run as root); must-reject classes are derived from POSIX, not from gtree's validator; invalid UTF-8 and over-long names are don't-care for rejection",
            PBT + ": confinement oracle on a chroot-wide snapshot, exhaustive hostile-name placement + rapid"),
    "C08": ("exploration",
            "missing/extra sets are computed from the snapshot (not with fs.WalkDir) and compared with the parsed error text: verdict iff, soundness of every listed path, exactness for the first differing root, purity (no diff), Mkdir(exts) -> Verify strict. Exhaustive: all subsets of node paths removed for forests <=4/5 nodes x strict x extra entry. Also verify / grow below a non-root node / verify again, targets named t and ~t, extra entries with non-UTF-8 names, and the file system root as target (/, //, /., /x/.. in the chrooted worker). Part wide: root directories with 1023..4100 entries. Extra files and node paths present as files may be hard links of one another.",
            "directory states are built from the tree (removal, kind flips, extras at any depth) or by gtree's own Mkdir; in massive mode only soundness is required (which root is reported depends on the schedule)",
            PBT + ": independent set-difference oracle over generated directory states + Mkdir->Verify round trip"),
    "C09": ("exploration",
            "Dry run and a real Mkdir of the same forest run in fresh chroot jails: no filesystem diff, report == renderer + per-root counts, counts == entries the real run created beneath each root, dry error iff real error (names only). Routes: OutputFromMarkdown+dry-run (CLI route), MkdirFromRoot+dry-run, simple and massive. Also the non-iterator path, extension lists of 8..12 values incl. compound ones and path tails across a separator, and dry runs against a target file system without room for a single entry. Dry runs with colours enabled (every name verbatim between colour sequences); From-Root names with line breaks. The option list comes in a drawn order (rotation, reversal).",
            "the route MkdirFromMarkdown+WithDryRun is a listed known finding (ignores the option), excluded by construction and probed on every run; over-long names are treated as OS refusal, not as a name rejection",
            PBT + ": purity (snapshot diff) + prediction oracle (dry-run report vs real Mkdir snapshot), exhaustive small forests + rapid"),
    "C10": ("exploration",
            "Differential: the simple-mode result of the same input is the reference (so malformed and mutated documents are in scope): error iff; text/dry-run output is a permutation of simple's per-root blocks (cut by the simple walk's line counts); JSON lines / YAML documents equal as multisets; walk visits equal with order preserved inside a root; mkdir snapshots equal; verify verdict equal. Schedules are perturbed (GOMAXPROCS, reader chunking, yielding writer/callback, Gosched/sleep at 22 hook points). Also failing callbacks (error iff and identical error), reader/writer dynamic types (io.WriterTo, io.StringWriter, *bytes.Reader, regular file, *bufio.Reader, *bytes.Buffer), walker nodes re-read after the walk, mkdir on a file system that runs full. Process umasks 000/002/027/077 during mkdir.",
            "schedules are sampled and perturbed through the verif hook, not enumerated; three listed known findings (massive mkdir atomicity / exist check, mixed list+heading roots) are excluded by classifier and probed on every run",
            PBT + ": differential testing (massive vs simple) under generated schedule perturbations"),
    "C11": ("fault_enumeration",
            "Every massive-mode call runs in a worker with a hang watchdog (blocked-goroutine confirmation) and a goroutine-leak scan; documents with 0..12 failing blocks at drawn stages x reader/writer/callback failure at an index x cancellation (before, inside the Read crossing byte k, timer, deadline, at a write, at a callback) x perturbed schedules. Enumerated: every cancel offset, reader offset, writer index and callback index of a panel of documents. The same scenarios under -race. Also worker processes started with GOMAXPROCS=1 and confined to one CPU (taskset), readers that are io.Closer / *bufio.Reader, callback error values from the standard library, a file system that runs full, and an input that goes quiet (idle pipe) while the context is cancelled. Callbacks that end their goroutine (runtime.Goexit) or call the library on the same tree; the deprecated aliases as entry points. Half of the cancellable contexts carry a cause of the caller's own (the call must return the context's error).",
            "schedules are perturbed, not enumerated: a leak or race needing an interleaving outside the reach of GOMAXPROCS/delay perturbation can be missed; the race detector only sees executed accesses; 'bounded time' = 20 s watchdog + identical blocked stacks",
            "fault injection / fault enumeration over generated inputs: every byte offset and write index, cancellation points, goroutine-leak scan, race detector"),
    "C12": ("exploration",
            "Grammar-aware mutation of valid documents (13 mutation kinds incl. 64 KiB lines, NUL, invalid UTF-8, blank-only, bullet-only, indented first line) x every entry point (real Mkdir in a chroot) x {simple, massive} in isolated workers with a hang watchdog; semantic oracles sound for arbitrary bytes (iterator vs slice path, walk rows vs text, JSON node count, final newline); blank input => nil and nothing produced. Thorough adds coverage-guided native fuzzing (go test -fuzz, 16 workers) seeded from /repo/testdata and hostile constants. Option values: extension lists of regexp/format/path metacharacters, invalid UTF-8 and 5000-byte values, arbitrary branch strings, strict verify, target spellings, reader types; worker processes with one P / one CPU. Endless loops are detected (busy-loop watchdog). Also through the deprecated exported functions.",
            "native fuzz campaigns are not reproducible from a seed (their saved inputs are); real Mkdir on arbitrary bytes is driven only from the rapid side (a fuzz worker cannot chroot itself)",
            "fuzzing: grammar-aware mutation (rapid) + coverage-guided native go fuzzing with in-target semantic oracles"),
    "C13": ("exploration",
            "Stateful, model-based: rapid state machine over NewRoot / Add (any node of any live tree, names that may not be path elements) / any From-Root operation / iterators created now and ranged over later / From-Markdown calls in between (fresh spelling each time, option-less verify) / repeat, with one caller-owned extension slice reused by every call; the model forest is compared after every step; ALL histories up to length 5/7 over an 11-symbol alphabet with two trees; the same histories split over 2..24 goroutines (also massive, also under -race), concurrent independent From-Markdown calls (text and dry-run) and bursts of 2..64 simultaneous massive calls. One WithMassive option value is shared by all calls of a machine, histories contain failing calls, directories are made at the same absolute path in every step, concurrent From-Markdown calls may write to *os.File and use WithMassive, calls with failing readers surround the concurrent ones. Error values of failed From-Markdown calls are kept and re-read later; one option array with spare capacity serves iterator walks (prefix) and JSON calls (whole); a verify whose directory walk fails precedes a verify with a missing path at the same absolute path. Histories contain calls torn down by a recovered panic of the caller's writer or callback.",
            "concurrent schedules are sampled (GOMAXPROCS 1/2/4/16, Gosched between steps)",
            PBT + ": stateful model-based testing (rapid state machine), bounded-exhaustive histories, concurrent histories"),
    "C14": ("fault_enumeration",
            "For each document: the reader fails after EVERY byte offset (two failure shapes, three chunkings) => errors.Is(err, E); the writer fails at EVERY write index (plain, short write, one-off) => non-nil error; all output modes x {From-Markdown, From-Root} x {simple, massive}, plus reader faults for walk/mkdir/verify. Reader/writer dynamic types (io.WriterTo, io.StringWriter, io.Closer, *bufio.Reader), a failing Write that reports the full count, and an empty regular file opened write-only as reader (EBADF). The error may arrive with the last bytes once; bare io.EOF / io.ErrUnexpectedEOF / io.ErrShortWrite as writer errors. One output case in twelve has a row of 4 000..60 000 bytes (rows above 32 KiB under writer faults).",
            "writer faults are observed through a recording writer; in massive mode the number of writes is that of the fault-free run of the same schedule class",
            "fault enumeration: reader failure at every byte offset, writer failure at every write index, over generated documents"),
    "C15": ("exploration",
            "Metamorphic, model-free: one forest, two independently drawn spellings (unit, tabs, bullets per line, heading roots, blank and Unicode-blank lines, CRLF, final newline); outputs in every mode (also massive, compared as multisets of lines), walk visits, mkdir snapshots and verify verdict/reports must be identical. Exhaustive: forests <=4/7 nodes x all 15 pairs of the 6-spelling panel. Plus the mixed root notation (first k roots as list items, the rest as # headings) for every split point, and several reader types. The whole input as one row with / without its terminator around 64 KiB.",
            "the speller produces exactly the notation family of the statement (no other liberties); heading spelling only when root names have no edge blanks",
            PBT + ": metamorphic relation between two generated spellings of one forest"),
    "C16": ("exploration",
            "The binary built from /repo/cmd/gtree runs in a jail; the library runs in-process on the same input in an identical jail: stdout equal (multiset of lines with --massive), filesystem snapshots equal, exit 0 iff (valid command line and file opened and library nil and stdout accepted every byte), diagnostic on stderr, never a crash; 'template | output' equals the README tree. Also --massive-timeout 1ns (library under an expired deadline), --watch (without a file, with an unopenable file, and following a file through one change), stdin /dev/null, stdout a pipe without a reader, mkdir on a file system that runs full. Documents starting with a byte order mark; --target-dir ~ / ~/out. Part signal: runs interrupted by SIGINT / SIGTERM while their input is still open must not exit 0.",
            "the mapping from flags to library options is the oracle's reading of the documented flags; extensions that the flag parser cannot express (blank edges, commas) are not generated; a closed stdout is accepted as /dev/null (Go runtime re-opens it); the web subcommand is excluded",
            PBT + ": differential testing CLI vs library over generated command lines, documents, stdout states and directory states"),
    "C17": ("exploration",
            "cmd/outworker is compiled twice from one source (default, -tags tinywasm); both processes receive the same generated case stream: accept/reject must agree and accepted outputs must be byte-identical for text (default/custom branch strings), JSON and dry-run + extensions. Exhaustive over forests <=5/7 nodes x spelling panel x 4 option sets, malformations, C12's hostile constants and multi-root documents beyond 64 KiB. Also deep forests (90 levels) and parents with 31..300 children followed by a repeat of one of them.",
            "compares the tag-selected Go sources under the stock Go compiler on linux/amd64; TinyGo's compiler/runtime and the JS glue are out of reach offline",
            PBT + ": differential testing between two build variants of one driver"),
}

REPO_HOOK_COMMITS = ["242257b"]


def main():
    checks = []
    for pid in sorted(D):
        level, text, note, tech = D[pid]
        checks.append({
            "property_id": pid,
            "quick_cmd": "./check %s quick" % pid,
            "thorough_cmd": "./check %s thorough" % pid,
            "evidence_file": "/verif/evidence/%s.json" % pid,
            "replay_cmd_template": "./check %s --replay {path}" % pid,
            "engine": "props",
            "level_claimed": {"category": level, "text": text, "design_ref": "DESIGN.md §4 %s" % pid},
            "level_note": note,
            "technique": tech,
        })
    m = {
        "version": 1,
        "setup_cmd": "./setup.sh",
        "hooks": {
            "guard": "verif",
            "enable": "harness binaries are built with `go test -c -tags verif` / `go build -tags verif` from /verif/harness, whose go.mod replaces github.com/ddddddO/gtree with /repo",
            "baseline_off_cmd": "/verif/tools/baseline.sh /repo",
            "source_commits": REPO_HOOK_COMMITS,
            "add_only": True,
        },
        "engines": [{
            "name": "props", "path": "harness/props", "serves_properties": sorted(D),
            "kind_free_text": "pgregory.net/rapid v1.3.0 property tests, bounded-exhaustive enumerators, fault enumeration and native go fuzz targets in one Go test package; isolated / chrooted / race-instrumented worker processes (the test binary re-executed); driven and merged by ./check (python3, stdlib only)",
        }],
        "checks": checks,
        "not_applicable": [],
        "notes": "All 17 properties are decided by generated-input search against an explicit oracle; see DESIGN.md. Exit 2 of a check = inconclusive (toolchain / time budget), never a violation. Known findings: KNOWN_FINDINGS.txt.",
    }
    json.dump(m, open(os.path.join(VERIF, "MANIFEST.json"), "w"), indent=1)
    print("MANIFEST.json written:", len(checks), "checks")


if __name__ == "__main__":
    main()
