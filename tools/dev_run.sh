#!/bin/bash
# run a check from a private copy of /verif against a private clean clone of /repo (while /repo itself is busy)
D=/dev/shm/dev
mkdir -p $D
[ -d $D/repo ] || git clone -q /repo $D/repo
[ -n "$KEEP" ] || { git -C $D/repo checkout -q -- . ; git -C $D/repo pull -q 2>/dev/null; }
rm -rf $D/verif; mkdir -p $D/verif
cp -r /verif/check /verif/harness /verif/KNOWN_FINDINGS.txt /verif/tools /verif/replays /verif/corpus $D/verif/
sed -i "s#=> /repo#=> $D/repo#" $D/verif/harness/go.mod
cd $D/verif && VERIF_REPO=$D/repo VERIF_NOSAVE=1 ./check "$@"
