#!/bin/bash
# Harvests one shrunk replay per seeded change / reverted fix into replays/<ID>/<name>.json (the regression tier).
# usage: tools/harvest_replays.sh <name> <patch.diff> <ID>
name=$1; patch=$2; id=$3
cd "$(dirname "$0")/.."
rm -rf /tmp/gtree-verif-nosave
SKIP_BASELINE=1 tools/try_seed.sh $patch $id >/dev/null 2>&1
best=$(ls -S /tmp/gtree-verif-nosave/$id/new/*.json 2>/dev/null | tail -1)
if [ -z "$best" ]; then echo "$name: no replay for $id"; exit 1; fi
if grep -q '"kind": "log"' $best; then echo "$name: only a log replay"; exit 1; fi
mkdir -p replays/$id
cp $best replays/$id/$name.json
echo "$name -> replays/$id/$name.json ($(stat -c %s $best) bytes)"
rm -rf /tmp/gtree-verif-nosave
