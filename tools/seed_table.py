#!/usr/bin/env python3
"""Regenerates the table of seeded changes in DESIGN.md (§10.5) from seeded/*/meta.json and NOTES.md.
The table is everything between the header row '| change | what it is' and the first line after it that is not a table row."""
import glob, json, os, re, sys
root = os.path.dirname(os.path.dirname(os.path.abspath(__file__)))
rows = []
for d in sorted(glob.glob(os.path.join(root, "seeded", "C*-*"))):
    meta = json.load(open(os.path.join(d, "meta.json")))
    first = ""
    notes = os.path.join(d, "NOTES.md")
    if os.path.exists(notes):
        for l in open(notes, errors="replace"):
            l = l.strip().lstrip("# ").strip()
            if l:
                first = l
                break
    first = first.replace("|", "\\|")[:120]
    caught = ", ".join(meta.get("caught_by", [])) or "— (not caught)"
    rows.append("| `seeded/%s` | %s | %s | %s |" % (os.path.basename(d), first, caught, meta.get("history", "").replace("|", "\\|")))
p = os.path.join(root, "DESIGN.md")
lines = open(p).read().split("\n")
i = next(k for k, l in enumerate(lines) if l.startswith("| change | what it is"))
j = i + 2
while j < len(lines) and lines[j].startswith("|"):
    j += 1
lines[i + 2:j] = rows
open(p, "w").write("\n".join(lines))
print("%d rows" % len(rows))
