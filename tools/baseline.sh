#!/bin/bash
# Runs the repository's pinned baseline (guard OFF) and compares with BASELINE.json's stable_pass list.
# usage: tools/baseline.sh [repo-dir]   exit 0 iff all 57 pinned tests pass
REPO=${1:-/repo}
export GOFLAGS=-mod=mod GOPROXY=off
cd "$REPO" || exit 2
go test -mod=mod -json -vet=off -count=1 -timeout 25m ./... 2>/dev/null > /dev/shm/baseline.$$.json
python3 - /dev/shm/baseline.$$.json <<'PY'
import json,sys
passed=set()
for l in open(sys.argv[1]):
    try: e=json.loads(l)
    except Exception: continue
    if e.get('Action')=='pass' and e.get('Test'):
        passed.add(e['Package']+'::'+e['Test'])
base=json.load(open('/root/.vp/BASELINE.json'))['stable_pass']
missing=[t for t in base if t not in passed]
print('baseline: %d/%d pinned tests pass'%(len(base)-len(missing),len(base)))
for m in missing: print('  MISSING',m)
sys.exit(1 if missing else 0)
PY
rc=$?
rm -f /dev/shm/baseline.$$.json
exit $rc
