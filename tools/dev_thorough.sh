#!/bin/bash
D=/dev/shm/dev
git -C $D/repo checkout -q -- .
rm -rf $D/verif; mkdir -p $D/verif
cp -r /verif/check /verif/harness /verif/KNOWN_FINDINGS.txt /verif/tools /verif/replays /verif/corpus $D/verif/
sed -i "s#=> /repo#=> $D/repo#" $D/verif/harness/go.mod
cd $D/verif
seed=$1; shift
for c in "$@"; do
  out=$(VERIF_SEED=$seed VERIF_REPO=$D/repo VERIF_NOSAVE=1 ./check $c thorough 2>&1); rc=$?
  echo "seed=$seed $c thorough rc=$rc $(echo "$out" | grep -a 'evaluations' | tail -1 | sed 's/.*: //')"
  if [ $rc -ne 0 ]; then echo "$out" | grep -a "VIOLATION\|INFRA\|panic\|FAIL" | head -8; fi
done
