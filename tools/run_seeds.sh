#!/bin/bash
# Sensitivity regression: applies every seeded change in turn to /repo, runs the quick check of the property it targets
# (plus the checks recorded as catching it) and reports which ones are still caught. Leaves /repo clean.
# usage: tools/run_seeds.sh [seed-dir-names...]      exit 0 iff every change is caught by at least one check
cd "$(dirname "$0")/.."
seeds=${@:-$(ls seeded)}
missed=0
for s in $seeds; do
  d=seeded/$s
  [ -f $d/patch.diff ] || continue
  target=${s%%-*}
  also=$(python3 -c "import json;m=json.load(open('$d/meta.json'));print(' '.join(x for x in m.get('caught_by',[]) if x!='$target'))" 2>/dev/null)
  out=$(SKIP_BASELINE=1 tools/try_seed.sh $d/patch.diff $target 2>&1); rc=$?
  caught=$(echo "$out" | grep -a -o "C[0-9]* rc=1" | tr '\n' ' ')
  if [ $rc -ne 0 ] && [ -n "$also" ]; then
    out=$(SKIP_BASELINE=1 tools/try_seed.sh $d/patch.diff $also 2>&1); rc=$?
    caught="$caught $(echo "$out" | grep -a -o "C[0-9]* rc=1" | tr '\n' ' ')"
  fi
  if [ $rc -eq 0 ]; then echo "$s caught: $caught"; else echo "$s MISSED ($(echo "$out" | grep -a "rc=" | tr '\n' ' '))"; missed=$((missed+1)); fi
done
echo "missed: $missed"
[ $missed -eq 0 ]
