#!/bin/bash
# Sensitivity regression: applies every seeded change in turn to /repo, runs the quick check of the property it targets
# (then the checks recorded as catching it) and reports which ones are still caught. With HARVEST=1 the smallest shrunk
# replay of each caught change is copied to replays/<ID>/seed-<name>.json (the regression tier). Leaves /repo clean.
# usage: tools/run_seeds.sh [seed-dir-names...]      exit 0 iff every change is caught by at least one check
cd "$(dirname "$0")/.."
seeds=${@:-$(ls seeded)}
missed=0
for s in $seeds; do
  d=seeded/$s
  [ -f $d/patch.diff ] || continue
  target=${s%%-*}
  order=$(python3 -c "import json;m=json.load(open('$d/meta.json'));c=m.get('caught_by',[]);print(' '.join((['$target'] if '$target' in c else [])+[x for x in c if x!='$target']) or '$target')" 2>/dev/null)
  caught=""
  for id in $order; do
    rm -rf /tmp/gtree-verif-nosave
    out=$(SKIP_BASELINE=1 tools/try_seed.sh $d/patch.diff $id 2>&1); rc=$?
    if [ $rc -eq 0 ]; then
      caught=$id
      if [ -n "$HARVEST" ]; then
        best=$(ls -S /tmp/gtree-verif-nosave/$id/new/*.json 2>/dev/null | tail -1)
        if [ -n "$best" ] && ! grep -q '"kind": "log"' $best; then mkdir -p replays/$id; cp $best replays/$id/seed-$s.json; fi
      fi
      break
    fi
  done
  if [ -n "$caught" ]; then echo "$s caught by $caught"; else echo "$s MISSED (tried: $order)"; missed=$((missed+1)); fi
done
rm -rf /tmp/gtree-verif-nosave
echo "missed: $missed"
[ $missed -eq 0 ]
