#!/bin/bash
# all 17 quick checks from a private copy at several seeds; prints only problems
D=/dev/shm/dev
git -C $D/repo checkout -q -- .
rm -rf $D/verif; mkdir -p $D/verif
cp -r /verif/check /verif/harness /verif/KNOWN_FINDINGS.txt /verif/tools /verif/replays /verif/corpus $D/verif/
sed -i "s#=> /repo#=> $D/repo#" $D/verif/harness/go.mod
cd $D/verif
for seed in "$@"; do
  for i in $(seq -w 1 17); do
    out=$(VERIF_SEED=$seed VERIF_REPO=$D/repo VERIF_NOSAVE=1 ./check C$i quick 2>&1); rc=$?
    echo "seed=$seed C$i rc=$rc $(echo "$out" | grep -a 'evaluations' | tail -1 | sed 's/.*: //')"
    if [ $rc -ne 0 ]; then echo "$out" | grep -a "VIOLATION\|INFRA\|panic\|FAIL" | head -8; fi
  done
done
