#!/usr/bin/env python3
"""Second opinion for C04: decodes gtree's JSON / YAML / TOML outputs with Python's decoders (json, PyYAML safe_load_all,
tomllib) and compares the structure with the expected forest. Input: JSON lines {"format","out"(base64),"want":[[name,[kids]]...]}.
Prints one line per mismatch, then "checked N mismatches M"."""
import base64
import json
import sys

try:
    import yaml
except Exception:  # pragma: no cover
    yaml = None
try:
    import tomllib
except Exception:  # pragma: no cover
    tomllib = None


def norm(rec):
    kids = rec.get("children") or []
    return [rec.get("value"), [norm(k) for k in kids]]


def main(path):
    n = bad = skipped = 0
    for line in open(path, encoding="utf-8"):
        c = json.loads(line)
        out = base64.b64decode(c["out"])
        fmt = c["format"]
        try:
            if fmt == "json":
                got = [norm(json.loads(l)) for l in out.decode("utf-8").split("\n") if l != ""]
            elif fmt == "yaml":
                if yaml is None:
                    skipped += 1
                    continue
                got = [norm(d) for d in yaml.safe_load_all(out.decode("utf-8"))]
            elif fmt == "toml":
                if tomllib is None:
                    skipped += 1
                    continue
                got = [norm(tomllib.loads(out.decode("utf-8")))]
            else:
                continue
        except Exception as e:  # decoder rejects the output
            # PyYAML's reader rejects some characters that YAML 1.2 allows (and yaml.v3 emits raw); they are reported apart
            print("DECODE-ERROR %s %s %r" % (fmt, type(e).__name__, str(e)[:200]), "case", c.get("id"))
            bad += 1
            n += 1
            continue
        n += 1
        if got != c["want"]:
            bad += 1
            print("MISMATCH %s case %s got %r want %r" % (fmt, c.get("id"), got, c["want"]))
    print("checked %d mismatches %d skipped %d" % (n, bad, skipped))


if __name__ == "__main__":
    main(sys.argv[1])
