// outworker uses only the API that both build variants of package gtree export (Output and the common options). It is
// compiled twice from this one source, with and without -tags tinywasm, and fed the same case stream (C17).
package main

import (
	"bufio"
	"bytes"
	"encoding/json"
	"fmt"
	"os"

	"github.com/ddddddO/gtree"
	"github.com/fatih/color"
)

type Case struct {
	Doc    []byte    `json:"doc"`
	Branch *[4]string `json:"branch,omitempty"` // midD midI lastD lastI
	Mode   string    `json:"mode"`             // text json dryrun
	Exts   []string  `json:"exts,omitempty"`
}

type Result struct {
	ErrNil bool   `json:"errNil"`
	Err    string `json:"err,omitempty"`
	Out    []byte `json:"out,omitempty"`
	Panic  string `json:"panic,omitempty"`
}

func run(c Case) (res Result) {
	defer func() {
		if p := recover(); p != nil {
			res.Panic = fmt.Sprint(p)
		}
	}()
	var opts []gtree.Option
	if c.Branch != nil {
		opts = append(opts, gtree.WithBranchFormatIntermedialNode(c.Branch[0], c.Branch[1]), gtree.WithBranchFormatLastNode(c.Branch[2], c.Branch[3]))
	}
	switch c.Mode {
	case "json":
		opts = append(opts, gtree.WithEncodeJSON())
	case "dryrun":
		opts = append(opts, gtree.WithDryRun(), gtree.WithFileExtensions(c.Exts))
	}
	var buf bytes.Buffer
	err := gtree.Output(&buf, bytes.NewReader(c.Doc), opts...)
	res.ErrNil = err == nil
	if err != nil {
		res.Err = err.Error()
	}
	res.Out = buf.Bytes()
	return res
}

func main() {
	color.NoColor = true
	in := bufio.NewReaderSize(os.Stdin, 1<<20)
	out := bufio.NewWriter(os.Stdout)
	for {
		line, err := in.ReadBytes('\n')
		if len(line) > 1 {
			var c Case
			if e := json.Unmarshal(line, &c); e != nil {
				fmt.Fprintln(os.Stderr, "outworker: bad case:", e)
				os.Exit(98)
			}
			b, _ := json.Marshal(run(c))
			out.Write(b)
			out.WriteByte('\n')
			out.Flush()
		}
		if err != nil {
			return
		}
	}
}
