package ops

import (
	"bufio"
	"bytes"
	"context"
	"errors"
	"fmt"
	"io"
	"os"
	"path/filepath"
	"regexp"
	"runtime"
	"runtime/debug"
	"strconv"
	"strings"
	"sync"
	"sync/atomic"
	"syscall"
	"time"
	"unsafe"

	"github.com/ddddddO/gtree"
	"github.com/fatih/color"
)

func init() { color.NoColor = true }

// Env describes where a Run may put its jail and how it may behave.
type Env struct {
	Scratch  string // directory for jails
	Chrooted bool   // the process lives in a chroot whose root is Scratch's root ("/")
	Guard    bool   // run every case under a watchdog (in-process use; a worker process has its own)
	poisoned atomic.Bool
	seq      int
}

var DefaultEnv = &Env{}

func (o Opts) Options(ctx context.Context, target string) []gtree.Option {
	var opts []gtree.Option
	if o.Branch != nil {
		opts = append(opts, gtree.WithBranchFormatIntermedialNode(o.Branch.MidD, o.Branch.MidI))
		opts = append(opts, gtree.WithBranchFormatLastNode(o.Branch.LastD, o.Branch.LastI))
	}
	switch o.Encode {
	case "json":
		opts = append(opts, gtree.WithEncodeJSON())
	case "yaml":
		opts = append(opts, gtree.WithEncodeYAML())
	case "toml":
		opts = append(opts, gtree.WithEncodeTOML())
	}
	if o.DryRun {
		opts = append(opts, gtree.WithDryRun())
	}
	if len(o.Exts) > 0 || o.HasExts {
		opts = append(opts, gtree.WithFileExtensions(o.Exts))
	}
	if o.Strict {
		opts = append(opts, gtree.WithStrictVerify())
	}
	if o.Massive {
		if o.NilCtx {
			opts = append(opts, gtree.WithMassive(nil))
		} else {
			opts = append(opts, gtree.WithMassive(ctx))
		}
	}
	if o.NoIter {
		opts = append(opts, gtree.WithNoUseIterOfSimpleOutput())
	}
	if target != "" || o.PassEmptyTarget {
		opts = append(opts, gtree.WithTargetDir(target))
	}
	if o.OptOrder > 0 && len(opts) > 1 {
		// the caller may give the options in any order: rotate by OptOrder/2, and reverse when OptOrder is odd
		r := (o.OptOrder / 2) % len(opts)
		opts = append(append([]gtree.Option{}, opts[r:]...), opts[:r]...)
		if o.OptOrder%2 == 1 {
			for i, j := 0, len(opts)-1; i < j; i, j = i+1, j-1 {
				opts[i], opts[j] = opts[j], opts[i]
			}
		}
	}
	if o.NilOpts {
		with := []gtree.Option{nil}
		for _, op := range opts {
			with = append(with, op, nil)
		}
		opts = with
	}
	return opts
}

// BuildRoot executes a From-Root build program and returns all nodes (node[0] is the root).
func BuildRoot(rootName string, prog []AddStep) []*gtree.Node {
	nodes := []*gtree.Node{gtree.NewRoot(rootName)}
	for _, s := range prog {
		p := s.P
		if p < 0 || p >= len(nodes) {
			p = 0
		}
		nodes = append(nodes, nodes[p].Add(s.N))
	}
	return nodes
}

// readVisit reads the six facts of a walker node in the order chosen by order: 0 = as the accessors are declared, k>0 = the
// (k-1)-th permutation (Lehmer code) of {Name, Branch, Row, Level, Path, HasChild}. A consumer may read any fact first.
func readVisit(wn *gtree.WalkerNode, order int) Visit {
	var v Visit
	idx := []int{0, 1, 2, 3, 4, 5}
	if order > 0 {
		code := (order - 1) % 720
		pool := []int{0, 1, 2, 3, 4, 5}
		idx = idx[:0]
		for n := 6; n >= 1; n-- {
			f := 1
			for j := 2; j < n; j++ {
				f *= j
			}
			k := code / f
			code %= f
			idx = append(idx, pool[k])
			pool = append(pool[:k], pool[k+1:]...)
		}
	}
	for _, i := range idx {
		switch i {
		case 0:
			v.Name = wn.Name()
		case 1:
			v.Branch = wn.Branch()
		case 2:
			v.Row = wn.Row()
		case 3:
			v.Level = wn.Level()
		case 4:
			v.Path = wn.Path()
		case 5:
			v.HasChild = wn.HasChild()
		}
	}
	return v
}

// unstable marks a visit whose facts read again later differ from what was read at the visit: the marked row matches no model.
func unstable(first, later Visit) Visit {
	if first == later {
		return later
	}
	first.Row = fmt.Sprintf("%s\x00UNSTABLE: read again later the node says %+v", first.Row, later)
	return first
}

// errCause is the cause given to cause-carrying contexts (context.Cause(ctx)); it is never the context's error.
var errCause = errors.New("shutting down (the caller's own cause)")

var hookMu sync.Mutex

// Run executes the case. It never panics; process-level failures are recorded in the Result.
func (env *Env) Run(c *Case) *Result {
	var res *Result
	switch {
	case !env.Guard:
		res = env.run(c)
	case env.poisoned.Load():
		res = &Result{Infra: "the in-process executor is unusable after an earlier call that did not return"}
	default:
		// in-process execution with a watchdog: a call that does not return is reported (its goroutine cannot be stopped,
		// so the executor refuses further work afterwards: the first such case is the finding)
		done := make(chan *Result, 1)
		go func() { done <- env.run(c) }()
		select {
		case res = <-done:
		case <-time.After(HangDeadline):
			a := strings.Join(gtreeGoroutines(), "\n\n")
			select {
			case res = <-done:
			case <-time.After(BusyDeadline):
				env.poisoned.Store(true)
				res = &Result{Hang: "call did not return within " + (HangDeadline + BusyDeadline).String() + "; gtree goroutines " + HangDeadline.String() + " into the call:\n" + a}
			}
		}
	}
	if res.Infra != "" {
		InfraCount.Add(1)
		LastInfra.Store(res.Infra)
	}
	return res
}

func (env *Env) run(c *Case) *Result {
	res := &Result{}
	if c.Sched.GOMAXPROCS > 0 {
		old := runtime.GOMAXPROCS(c.Sched.GOMAXPROCS)
		defer runtime.GOMAXPROCS(old)
	}

	// filesystem jail
	var base, target, targetOpt string
	restoreCwd := ""
	if c.FS != nil {
		env.seq++
		if env.Scratch == "" {
			res.Infra = "no scratch directory configured"
			return res
		}
		base = filepath.Join(env.Scratch, fmt.Sprintf("j%d", env.seq))
		ReleaseJail(base)
		if err := makeJail(base, c.FS); err != nil {
			res.Infra = "jail: " + err.Error()
			ReleaseJail(base)
			return res
		}
		defer ReleaseJail(base)
		target = filepath.Join(base, JailTarget)
		if c.FS.ParentIsFile {
			target = filepath.Join(target, "sub")
		}
		targetOpt = target
		switch c.Opts.TargetOpt {
		case "fsroot":
			// the target directory is the file system root itself (only inside the chrooted worker, whose "/" is a scratch
			// directory): the pre-state is made directly below "/", the option value is TargetRaw ("/", "//", "/.", "/x/..")
			if !env.Chrooted {
				res.Infra = "target fsroot needs the chrooted worker"
				return res
			}
			if err := createEntries("/", c.FS.Pre); err != nil {
				res.Infra = "fsroot pre-state: " + err.Error()
				return res
			}
			tops := map[string]bool{}
			for _, e := range c.FS.Pre {
				tops[strings.SplitN(e.Path, "/", 2)[0]] = true
			}
			defer func() {
				for t := range tops {
					os.RemoveAll("/" + t)
				}
			}()
			target = "/"
			targetOpt = c.Opts.TargetRaw
			if targetOpt == "" {
				targetOpt = "/"
			}
		case "slash":
			targetOpt = target + "/"
		case "rel", "default", "raw", "short", "tilde", "dotdot":
			cwd, err := os.Getwd()
			if err != nil {
				res.Infra = "getwd: " + err.Error()
				return res
			}
			restoreCwd = cwd
			if c.Opts.TargetOpt == "tilde" {
				// a relative name that begins with '~' ("~t", a symbolic link to the target beside it)
				if err := os.Chdir(filepath.Join(base, "work")); err != nil {
					res.Infra = "chdir: " + err.Error()
					return res
				}
				os.Symlink("target", filepath.Join(base, "work", "~t"))
				targetOpt = "~t"
			} else if c.Opts.TargetOpt == "short" {
				// a one-character relative name ("t", a symbolic link to the target beside it)
				if err := os.Chdir(filepath.Join(base, "work")); err != nil {
					res.Infra = "chdir: " + err.Error()
					return res
				}
				os.Symlink("target", filepath.Join(base, "work", "t"))
				targetOpt = "t"
			} else if c.Opts.TargetOpt == "dotdot" {
				// "lnk/../target": lexically the target beside the working directory; resolved by the kernel, lnk (a symbolic link
				// to far/deep) leads to far/target, an empty decoy directory. The library joins paths lexically (filepath.Join).
				if err := os.Chdir(filepath.Join(base, "work")); err != nil {
					res.Infra = "chdir: " + err.Error()
					return res
				}
				os.MkdirAll(filepath.Join(base, "work", "far", "deep"), 0o755)
				os.MkdirAll(filepath.Join(base, "work", "far", "target"), 0o755)
				os.Symlink("far/deep", filepath.Join(base, "work", "lnk"))
				targetOpt = "lnk/../target"
			} else if c.Opts.TargetOpt == "rel" {
				if err := os.Chdir(filepath.Join(base, "work")); err != nil {
					res.Infra = "chdir: " + err.Error()
					return res
				}
				targetOpt = "./target"
				if c.FS.ParentIsFile {
					targetOpt = "target/sub"
				}
			} else {
				if err := os.Chdir(target); err != nil {
					res.Infra = "chdir: " + err.Error()
					return res
				}
				targetOpt = ""
				if c.Opts.TargetOpt == "raw" {
					targetOpt = c.Opts.TargetRaw
				}
			}
		}
		snapRoot := base
		if env.Chrooted {
			snapRoot = "/"
		}
		res.Before = Snap(snapRoot)
		defer func() {
			if c.Opts.Massive {
				// a massive-mode call may return while its workers are still running (subject of C11); let them
				// finish so that late filesystem effects are part of this case's snapshot, not of the next one's
				// (and happen while the working directory is still the jail's)
				LeakScan(2 * time.Second)
			}
			if restoreCwd != "" {
				os.Chdir(restoreCwd)
			}
			res.After = Snap(snapRoot)
			if env.Chrooted {
				// remove anything that escaped into the chroot root so later cases start clean
				ents, _ := os.ReadDir("/")
				for _, e := range ents {
					p := filepath.Join("/", e.Name())
					if p != base && !strings.HasPrefix(base, p+"/") {
						os.RemoveAll(p)
					}
				}
			}
		}()
	}

	// context
	ctx := context.Background()
	var cancel context.CancelFunc = func() {}
	var cancelled atomic.Bool
	switch c.Cancel.Kind {
	case "customctx":
		// a context type of the caller's own (not one of the standard library's): never cancelled
		ctx = &customCtx{Context: ctx, done: make(chan struct{})}
	case "customctx-cancel":
		cc := &customCtx{Context: ctx, done: make(chan struct{})}
		ctx = cc
		cancel = func() { cancelled.Store(true); cc.cancel() }
		defer cancel()
		cancel()
	case "deadline":
		if c.Cancel.K%2 == 1 {
			// a context that carries a cause of the caller's own: the call must still return the context's error (ctx.Err())
			ctx, cancel = context.WithDeadlineCause(ctx, time.Now().Add(-time.Second), errCause)
		} else {
			ctx, cancel = context.WithDeadline(ctx, time.Now().Add(-time.Second))
		}
	case "":
		ctx, cancel = context.WithCancel(ctx)
	default:
		if c.Cancel.K%2 == 1 {
			var ccc context.CancelCauseFunc
			ctx, ccc = context.WithCancelCause(ctx)
			cancel = func() { cancelled.Store(true); ccc(errCause) }
		} else {
			var cc context.CancelFunc
			ctx, cc = context.WithCancel(ctx)
			cancel = func() { cancelled.Store(true); cc() }
		}
	}
	defer cancel()
	if c.Cancel.Kind == "pre" {
		cancel()
	}

	rd := &faultReader{doc: c.Doc, failAt: c.Faults.ReaderFailAt, mode: c.Faults.ReaderMode, chunk: c.Sched.ReadChunk,
		yield: c.Sched.ReaderYield, cancelAt: -1, errv: FaultErr(ErrReader, c.Faults.ErrKind), blockAt: -1}
	if c.Faults.ReaderBlock > 0 {
		rd.blockAt = c.Faults.ReaderBlock - 1
		rd.release = make(chan struct{})
	}
	if c.Cancel.Kind == "atOffset" {
		rd.cancelAt = c.Cancel.K
		rd.cancel = cancel
	}
	wr := &recWriter{failAt: c.Faults.WriterFailAt, short: c.Faults.WriterShort, once: c.Faults.WriterOnce,
		yieldUs: c.Sched.WriterYieldUs, cancelAt: -1, errv: FaultErr(ErrWriter, c.Faults.ErrKind)}
	if c.Cancel.Kind == "atWrite" {
		wr.cancelAt = c.Cancel.K
		wr.cancel = cancel
	}
	colorBuf := &recWriter{failAt: c.Faults.WriterFailAt, short: c.Faults.WriterShort, once: c.Faults.WriterOnce, cancelAt: -1, errv: FaultErr(ErrWriter, c.Faults.ErrKind)}
	oldColor := color.Output
	color.Output = colorBuf
	defer func() { color.Output = oldColor }()

	// hooks
	var reachedMu sync.Mutex
	reached := map[string]int{}
	hookMu.Lock()
	defer hookMu.Unlock()
	hook := func(p string) {
		reachedMu.Lock()
		reached[p]++
		nth := reached[p]
		reachedMu.Unlock()
		if a, ok := c.Sched.Hook[p]; ok && (a.First <= 0 || nth <= a.First) {
			switch a.Action {
			case "gosched":
				for i := 0; i < a.N; i++ {
					runtime.Gosched()
				}
			case "sleep":
				time.Sleep(time.Duration(a.N) * time.Microsecond)
			}
		}
	}
	gtree.VerifHook.Store(&hook)
	defer gtree.VerifHook.Store(nil)

	// callback
	var vmu sync.Mutex
	var keptCb []*gtree.WalkerNode // nodes handed to the callback, read again after the call has returned
	var visits []Visit
	var nvisit int
	stopped := false
	var cbRoot *gtree.Node // the root of the From-Root tree under test (for callbacks that call the library themselves)
	cbErr := CallbackErr(c.Faults.CbErrKind)
	callback := func(wn *gtree.WalkerNode) error {
		if c.Sched.CbYieldUs > 0 {
			time.Sleep(time.Duration(c.Sched.CbYieldUs) * time.Microsecond)
		} else if c.Sched.CbYieldUs < 0 {
			runtime.Gosched()
		}
		vmu.Lock()
		defer vmu.Unlock()
		idx := nvisit
		nvisit++
		if stopped {
			res.VisitsAfter++
		}
		visits = append(visits, readVisit(wn, c.FactOrder))
		keptCb = append(keptCb, wn)
		if c.Cancel.Kind == "atCallback" && idx >= c.Cancel.K {
			cancel()
		}
		if c.Faults.CbNested && idx == 0 && cbRoot != nil {
			// the callback uses the library itself: a massive-mode call on the very tree that is being walked
			if err := gtree.OutputFromRoot(io.Discard, cbRoot, gtree.WithMassive(context.Background())); err != nil {
				res.NestedErr = err.Error()
			}
		}
		if c.Faults.CallbackFailAt >= 0 && idx == c.Faults.CallbackFailAt {
			stopped = true
			if c.Faults.CbErrKind == 8 && c.Opts.Massive {
				// the callback ends its goroutine (what t.FailNow / t.Fatal / require.* do inside a callback)
				runtime.Goexit()
			}
			return cbErr
		}
		return nil
	}

	if c.Cancel.Kind == "afterDelay" {
		d := time.Duration(c.Cancel.K) * time.Microsecond
		t := time.AfterFunc(d, cancel)
		defer t.Stop()
	}

	var rdI io.Reader = rd
	var wrI io.Writer = wr
	var rdCloser *faultReaderCloser
	var pty *ptyWriter
	ioKind := c.Faults.IOKind
	if runtime.GOARCH != "amd64" && (ioKind == 4 || ioKind == 9) {
		ioKind-- // the anonymous memory file needs a raw system call number: elsewhere fall back to the *bytes.Reader variant
	}
	switch ioKind {
	case 1:
		rdI, wrI = faultReaderWT{rd}, recStringWriter{wr}
	case 2:
		rdCloser = &faultReaderCloser{faultReader: rd}
		rdI = rdCloser
	case 8, 9:
		// a seekable reader that is NOT at its start when handed over: the caller has consumed an earlier section (which
		// holds a hostile tree); the document is what remains. 8: *bytes.Reader, 9: regular file
		prefix := []byte("- ..\n  - ..\n    - skipped-section\n- /skipped\n  - a/b\n")
		all := append(append([]byte{}, prefix...), c.Doc...)
		if ioKind == 8 {
			br := bytes.NewReader(all)
			br.Seek(int64(len(prefix)), io.SeekStart)
			rdI = br
		} else {
			name := []byte("doc\x00")
			fd, _, errno := syscall.Syscall(319 /* SYS_MEMFD_CREATE on amd64 */, uintptr(unsafe.Pointer(&name[0])), 0, 0)
			if errno != 0 {
				res.Infra = "memfd_create: " + errno.Error()
				return res
			}
			f := os.NewFile(fd, "doc")
			f.Write(all)
			f.Seek(int64(len(prefix)), io.SeekStart)
			defer f.Close()
			rdI = f
		}
	case 6:
		// an EMPTY regular file opened write-only: every Read fails with EBADF although nothing remains to be read
		if f, err := os.CreateTemp(env.Scratch, "wronly"); err == nil {
			name := f.Name()
			f.Close()
			if wf, err := os.OpenFile(name, os.O_WRONLY, 0); err == nil {
				defer wf.Close()
				rdI = wf
			}
			os.Remove(name)
		}
	case 10:
		// the WRITER is a terminal: the slave side of a pseudo terminal (an *os.File that is a character device); what
		// arrives on the master side is the output
		if pw, err := openPty(); err == nil {
			pty = pw
			wrI = pw.slave
		} else {
			res.Infra = "pty: " + err.Error()
			return res
		}
	case 7:
		// the document in a *bytes.Buffer (a reader that has ReadString / ReadBytes / WriteTo methods of its own)
		rdI = bytes.NewBuffer(append([]byte{}, c.Doc...))
	case 5:
		// the (fault-injecting) reader behind a *bufio.Reader: a reader that "is already buffered"
		rdI = bufio.NewReaderSize(rd, 512)
	case 3:
		// the document as a *bytes.Reader (no faults, no accounting): a reader whose size the library could ask for
		rdI = bytes.NewReader(c.Doc)
	case 4:
		// the document as an open regular file (an anonymous memory file: it is in no directory, hence in no snapshot)
		name := []byte("doc\x00")
		if fd, _, errno := syscall.Syscall(319 /* SYS_MEMFD_CREATE on amd64 */, uintptr(unsafe.Pointer(&name[0])), 0, 0); errno == 0 {
			f := os.NewFile(fd, "doc")
			f.Write(c.Doc)
			f.Seek(0, io.SeekStart)
			defer f.Close()
			rdI = f
		} else {
			res.Infra = "memfd_create: " + errno.Error()
			return res
		}
	}
	var kept []*gtree.WalkerNode // nodes handed to the caller, read again after the walk has ended
	var early []Visit            // with FactOrder: what the nodes said when they were yielded
	call := func() (err error) {
		var opts []gtree.Option
		if c.Opts.EarlyOpts {
			// the caller built the option values earlier, while its working directory was another one
			if cwd, err := os.Getwd(); err == nil && os.Chdir("/") == nil {
				opts = c.Opts.Options(ctx, targetOpt)
				os.Chdir(cwd)
			}
		}
		if opts == nil {
			opts = c.Opts.Options(ctx, targetOpt)
		}
		var node *gtree.Node
		var nodes []*gtree.Node
		if c.Entry != "md" {
			if c.ZeroNode {
				node = new(gtree.Node) // a node made by neither NewRoot nor Add
			} else if c.Root != nil {
				nodes = BuildRoot(*c.Root, c.Prog)
				node = nodes[0]
				cbRoot = nodes[0]
				if c.UseSub > 0 && c.UseSub < len(nodes) {
					node = nodes[c.UseSub]
				}
				if c.ColorPre {
					color.NoColor = false // the earlier operations run as on a colour terminal
				}
				for _, po := range c.PreOps {
					runPreOp(po, nodes[0], base, env.Scratch)
				}
				color.NoColor = true
				for _, s := range c.MidProg {
					p := s.P
					if p < 0 || p >= len(nodes) {
						p = 0
					}
					nodes = append(nodes, nodes[p].Add(s.N))
				}
				for _, po := range c.MidOps { // operations after the tree has grown again (same tree, or another tree: "other-*")
					if strings.HasPrefix(po, "other-") {
						runPreOp(strings.TrimPrefix(po, "other-"), gtree.NewRoot("other").Add("x").Add("y"), base, env.Scratch)
						continue
					}
					runPreOp(po, nodes[0], base, env.Scratch)
				}
			}
		}
		if c.CopyRoot && node != nil && len(nodes) > 0 && node == nodes[0] {
			cp := *node // a root handed over by value (func render(n gtree.Node) { ...(&n) })
			node = &cp
		}
		alias := c.Entry == "alias" || c.Entry == "mdalias"
		md := c.Entry == "md" || c.Entry == "mdalias"
		switch c.Op {
		case "output":
			switch {
			case md && !alias:
				return gtree.OutputFromMarkdown(wrI, rdI, opts...)
			case md:
				return gtree.Output(wrI, rdI, opts...)
			case alias:
				return gtree.OutputProgrammably(wrI, node, opts...)
			default:
				return gtree.OutputFromRoot(wrI, node, opts...)
			}
		case "walk":
			switch {
			case md && !alias:
				return gtree.WalkFromMarkdown(rdI, callback, opts...)
			case md:
				return gtree.Walk(rdI, callback, opts...)
			case alias:
				return gtree.WalkProgrammably(node, callback, opts...)
			default:
				return gtree.WalkFromRoot(node, callback, opts...)
			}
		case "walkiter":
			// the caller's option slice has spare capacity, and the caller goes on using it: after the iterator has been
			// made, another option is appended to the same backing array (for some other call)
			opts = append(make([]gtree.Option, 0, len(opts)+4), opts...)
			seq := gtree.WalkIterFromRoot(node, opts...)
			if alias {
				seq = gtree.WalkIterProgrammably(node, opts...)
			}
			_ = append(opts, gtree.WithBranchFormatLastNode("<foreign>", "<foreign>"), gtree.WithBranchFormatIntermedialNode("<foreign>", "<foreign>"))
			for _, s := range c.LateProg { // the tree grows between creating the iterator and ranging over it
				p := s.P
				if p < 0 || p >= len(nodes) {
					p = 0
				}
				nodes = append(nodes, nodes[p].Add(s.N))
			}
			i := 0
			for wn, e := range seq {
				if e != nil {
					return e
				}
				if stopped {
					res.VisitsAfter++
				}
				kept = append(kept, wn) // the node is read after the loop: it must stay what it was when it was yielded
				if c.FactOrder != 0 {
					early = append(early, readVisit(wn, c.FactOrder))
				}
				if c.Nest > 0 && i == c.Nest-1 {
					inner := seq
					if c.Nest%2 == 0 {
						inner = gtree.WalkIterFromRoot(node, opts...)
					}
					for _, e2 := range inner {
						if e2 != nil {
							return e2
						}
						res.InnerVisits++
						if c.NestBreak {
							break
						}
					}
				}
				if c.Faults.BreakAt >= 0 && i == c.Faults.BreakAt {
					stopped = true
					break
				}
				i++
			}
			for k, wn := range kept {
				later := readVisit(wn, 0)
				if k < len(early) {
					later = unstable(early[k], later)
				}
				visits = append(visits, later)
			}
			if c.RangeTwice {
				for _, e := range seq {
					if e != nil {
						return e
					}
					res.SecondVisits++
				}
			}
			return nil
		case "mkdir":
			switch {
			case md && !alias:
				return gtree.MkdirFromMarkdown(rdI, opts...)
			case md:
				return gtree.Mkdir(rdI, opts...)
			case alias:
				return gtree.MkdirProgrammably(node, opts...)
			default:
				return gtree.MkdirFromRoot(node, opts...)
			}
		case "verify":
			switch {
			case md && !alias:
				return gtree.VerifyFromMarkdown(rdI, opts...)
			case md:
				return gtree.Verify(rdI, opts...)
			case alias:
				return gtree.VerifyProgrammably(node, opts...)
			default:
				return gtree.VerifyFromRoot(node, opts...)
			}
		}
		return fmt.Errorf("verif: unknown op %q", c.Op)
	}

	if c.FS != nil && c.FS.Umask != "" {
		if m, err := strconv.ParseUint(c.FS.Umask, 8, 32); err == nil {
			old := syscall.Umask(int(m))
			defer syscall.Umask(old)
		}
	}
	if c.Opts.Color {
		color.NoColor = false
		defer func() { color.NoColor = true }()
	}
	before := goroutineIDs()
	start := time.Now()
	err := func() (err error) {
		defer func() {
			if p := recover(); p != nil {
				res.Panic = fmt.Sprintf("%v\n%s", p, trimStack(debug.Stack()))
			}
		}()
		return call()
	}()
	res.ElapsedUs = time.Since(start).Microseconds()
	rd.mu.Lock()
	rd.returned = true
	rd.mu.Unlock()
	var ptyOut []byte
	if pty != nil {
		ptyOut = pty.finish()
	}
	if rd.release != nil {
		close(rd.release) // the idle input ends now (EOF or the rest of the document): a parked Read returns
		res.ReaderParked = rd.blocked.Load()
	}
	res.CtxCancelled = cancelled.Load() || c.Cancel.Kind == "deadline"

	res.Err = ErrInfo{Nil: err == nil}
	if err != nil {
		res.Err.Text = err.Error()
		res.Err.IsReader = errors.Is(err, ErrReader) || (c.Faults.IOKind == 6 && errors.Is(err, syscall.EBADF))
		res.Err.IsWriter = errors.Is(err, ErrWriter)
		res.Err.IsCallback = err == cbErr
		if ce := ctx.Err(); ce != nil {
			res.Err.IsCtx = errors.Is(err, ce)
		}
		res.Err.IsExistPath = errors.Is(err, gtree.ErrExistPath)
		res.Err.IsNilNode = errors.Is(err, gtree.ErrNilNode)
		res.Err.IsNotRoot = errors.Is(err, gtree.ErrNotRoot)
	}
	if c.Leak {
		res.Leaked = LeakScan(3 * time.Second)
		if res.Leaked == "" {
			// goroutines without a gtree frame that the call left behind (e.g. started by the context package on its behalf)
			res.Leaked = newGoroutineScan(before, 2*time.Second)
		}
	}
	wr.mu.Lock()
	res.Out = append([]byte{}, wr.buf...)
	if pty != nil {
		res.Out = ptyOut
	}
	res.Writes = wr.writes
	res.Offered = wr.offered
	res.WriteFailed = wr.failed
	wr.mu.Unlock()
	colorBuf.mu.Lock()
	res.Color = append([]byte{}, colorBuf.buf...)
	if colorBuf.failed {
		res.WriteFailed = true
	}
	colorBuf.mu.Unlock()
	rd.mu.Lock()
	res.ReadBytes = rd.read
	res.LateReadBytes = rd.late
	rd.mu.Unlock()
	if rdCloser != nil {
		res.CloseDuringRead = rdCloser.badClose.Load()
	}
	vmu.Lock()
	if len(keptCb) == len(visits) && len(keptCb) > 0 && res.Hang == "" {
		// what the callback saw must still be what the nodes say once the walk is over
		for i, wn := range keptCb {
			later := readVisit(wn, 0)
			if c.FactOrder != 0 {
				later = unstable(visits[i], later)
			}
			visits[i] = later
		}
	}
	res.Visits = visits
	vmu.Unlock()
	reachedMu.Lock()
	if len(reached) > 0 {
		res.Reached = map[string]int{}
		for k, v := range reached {
			res.Reached[k] = v
		}
	}
	reachedMu.Unlock()
	return res
}

// runPreOp performs an earlier operation on the same node tree; whatever it returns is ignored (a panic is not).
func runPreOp(op string, root *gtree.Node, jailBase, scratch string) {
	switch op {
	case "output":
		gtree.OutputFromRoot(io.Discard, root)
	case "output-custom":
		gtree.OutputFromRoot(io.Discard, root, gtree.WithBranchFormatIntermedialNode("+--", ":  "), gtree.WithBranchFormatLastNode("+--", "   "))
	case "output-massive":
		gtree.OutputFromRoot(io.Discard, root, gtree.WithMassive(context.Background()))
	case "json":
		gtree.OutputFromRoot(io.Discard, root, gtree.WithEncodeJSON())
	case "walk":
		gtree.WalkFromRoot(root, func(*gtree.WalkerNode) error { return nil })
	case "walkiter":
		for range gtree.WalkIterFromRoot(root) {
		}
	case "walkiter-break":
		for range gtree.WalkIterFromRoot(root) {
			break
		}
	case "dryrun":
		old := color.Output
		color.Output = io.Discard
		gtree.MkdirFromRoot(root, gtree.WithDryRun())
		color.Output = old
	case "verify":
		d := jailBase
		if d == "" {
			d = os.TempDir()
		}
		gtree.VerifyFromRoot(root, gtree.WithTargetDir(filepath.Join(d, "no-such-dir-for-preop")))
	case "verify-noopt":
		// no options at all: verifies against the current directory (read-only)
		gtree.VerifyFromRoot(root)
	case "yaml":
		gtree.OutputFromRoot(io.Discard, root, gtree.WithEncodeYAML())
	case "toml":
		gtree.OutputFromRoot(io.Discard, root, gtree.WithEncodeTOML())
	case "mkdir-elsewhere", "mkdir-elsewhere-massive":
		// a real Mkdir of the same tree into a throw-away directory outside the jail of the case
		if scratch == "" || scratch == "/" {
			scratch = os.TempDir()
		}
		if d, err := os.MkdirTemp(scratch, "preop-mkdir-"); err == nil {
			if op == "mkdir-elsewhere" {
				gtree.MkdirFromRoot(root, gtree.WithTargetDir(d))
			} else {
				gtree.MkdirFromRoot(root, gtree.WithTargetDir(d), gtree.WithMassive(context.Background()))
			}
			os.RemoveAll(d)
		}
	case "verify-massive":
		d := jailBase
		if d == "" {
			d = os.TempDir()
		}
		gtree.VerifyFromRoot(root, gtree.WithTargetDir(filepath.Join(d, "no-such-dir-for-preop")), gtree.WithMassive(context.Background()))
	}
}

// customCtx is a context implementation outside the standard library (it has its own Done channel).
type customCtx struct {
	context.Context
	done chan struct{}
	once sync.Once
	err  atomic.Value
}

func (c *customCtx) Done() <-chan struct{} { return c.done }
func (c *customCtx) Err() error {
	if e := c.err.Load(); e != nil {
		return e.(error)
	}
	return nil
}
func (c *customCtx) cancel() {
	c.once.Do(func() { c.err.Store(context.Canceled); close(c.done) })
}

var goroutineHeader = regexp.MustCompile(`(?m)^goroutine (\d+) \[`)

func allStacksBytes() []byte {
	buf := make([]byte, 1<<20)
	for {
		n := runtime.Stack(buf, true)
		if n < len(buf) {
			return buf[:n]
		}
		buf = make([]byte, 2*len(buf))
	}
}

func goroutineIDs() map[string]bool {
	ids := map[string]bool{}
	for _, m := range goroutineHeader.FindAllSubmatch(allStacksBytes(), -1) {
		ids[string(m[1])] = true
	}
	return ids
}

// newGoroutineScan reports goroutines that did not exist before the call and are still there after the settling period
// (the harness starts none of its own during a call except short-lived timers, which disappear while we poll).
func newGoroutineScan(before map[string]bool, settle time.Duration) string {
	deadline := time.Now().Add(settle)
	wait := 100 * time.Microsecond
	for {
		var left []string
		for _, g := range bytes.Split(allStacksBytes(), []byte("\n\n")) {
			m := goroutineHeader.FindSubmatch(g)
			if m == nil || before[string(m[1])] {
				continue
			}
			if bytes.Contains(g, []byte("verif/harness/ops.newGoroutineScan")) || bytes.Contains(g, []byte("verif/harness/ops.watchdog")) {
				continue
			}
			left = append(left, string(g))
		}
		if len(left) == 0 {
			return ""
		}
		if time.Now().After(deadline) {
			return "goroutines started during the call and still alive:\n" + strings.Join(left, "\n\n")
		}
		time.Sleep(wait)
		if wait < 50*time.Millisecond {
			wait *= 2
		}
	}
}

func trimStack(b []byte) string {
	s := string(b)
	if len(s) > 3000 {
		s = s[:3000] + "..."
	}
	return s
}

// LeakScan waits until no goroutine other than the caller has a gtree frame on its stack; it returns "" when that
// happens within the settling period, otherwise the stacks of the goroutines that remain. A goroutine that is merely
// slow to finish disappears while we poll; one blocked forever on a channel never does.
func LeakScan(settle time.Duration) string {
	deadline := time.Now().Add(settle)
	wait := 50 * time.Microsecond
	for {
		leaked := gtreeGoroutines()
		if len(leaked) == 0 {
			return ""
		}
		if time.Now().After(deadline) {
			return strings.Join(leaked, "\n\n")
		}
		time.Sleep(wait)
		if wait < 50*time.Millisecond {
			wait *= 2
		}
	}
}

func gtreeGoroutines() []string {
	buf := make([]byte, 1<<20)
	for {
		n := runtime.Stack(buf, true)
		if n < len(buf) {
			buf = buf[:n]
			break
		}
		buf = make([]byte, 2*len(buf))
	}
	var out []string
	for i, g := range bytes.Split(buf, []byte("\n\n")) {
		if i == 0 {
			continue // the calling goroutine
		}
		if bytes.Contains(g, []byte("github.com/ddddddO/gtree.")) || bytes.Contains(g, []byte("github.com/ddddddO/gtree/")) {
			out = append(out, string(g))
		}
	}
	return out
}
