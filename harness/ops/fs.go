package ops

import (
	"crypto/sha256"
	"encoding/hex"
	"fmt"
	"io/fs"
	"os"
	"path/filepath"
	"sort"
	"strings"
	"syscall"
)

// Snap records every entry below dir: relative path -> descriptor (kind, permissions, size, content hash, mtime for
// files, link target). It uses Lstat and never follows symlinks.
func Snap(dir string) map[string]string {
	out := map[string]string{}
	filepath.WalkDir(dir, func(p string, d fs.DirEntry, err error) error {
		rel, _ := filepath.Rel(dir, p)
		if rel == "." {
			return nil
		}
		if err != nil {
			out[rel] = "err:" + err.Error()
			return nil
		}
		info, err := os.Lstat(p)
		if err != nil {
			out[rel] = "err:" + err.Error()
			return nil
		}
		switch {
		case info.IsDir():
			out[rel] = fmt.Sprintf("d:%o%s", info.Mode().Perm(), specialBits(info.Mode()))
		case info.Mode()&os.ModeSymlink != 0:
			t, _ := os.Readlink(p)
			out[rel] = "l:" + t
		case info.Mode().IsRegular():
			data, _ := os.ReadFile(p)
			h := sha256.Sum256(data)
			out[rel] = fmt.Sprintf("f:%o:%d:%s:%d", info.Mode().Perm(), info.Size(), hex.EncodeToString(h[:6]), info.ModTime().UnixNano())
		default:
			out[rel] = "o:" + info.Mode().String()
		}
		return nil
	})
	return out
}

func specialBits(m os.FileMode) string {
	s := ""
	if m&os.ModeSetuid != 0 {
		s += "+setuid"
	}
	if m&os.ModeSetgid != 0 {
		s += "+setgid"
	}
	if m&os.ModeSticky != 0 {
		s += "+sticky"
	}
	return s
}

// Diff lists created, removed and changed paths between two snapshots (sorted).
func Diff(before, after map[string]string) (created, removed, changed []string) {
	for p, d := range after {
		if b, ok := before[p]; !ok {
			created = append(created, p)
		} else if b != d {
			changed = append(changed, p)
		}
	}
	for p := range before {
		if _, ok := after[p]; !ok {
			removed = append(removed, p)
		}
	}
	sort.Strings(created)
	sort.Strings(removed)
	sort.Strings(changed)
	return
}

// Kind returns "d", "f", "l", "o" or "" from a snapshot descriptor.
func Kind(desc string) string {
	if i := strings.IndexByte(desc, ':'); i > 0 {
		return desc[:i]
	}
	return ""
}

// FileSize returns the size recorded for a regular file descriptor (-1 otherwise).
func FileSize(desc string) int {
	parts := strings.Split(desc, ":")
	if len(parts) >= 3 && parts[0] == "f" {
		var n int
		fmt.Sscanf(parts[2], "%d", &n)
		return n
	}
	return -1
}

// Jail layout (relative to the jail base):
//
//	outside.txt            sentinel file beside everything
//	work/                  the process' notion of "around the target"
//	work/sib/keep.txt      sentinel sibling of the target
//	work/target/           the target directory handed to gtree
const (
	JailTarget = "work/target"
)

func makeJail(base string, spec *FSSpec) error {
	if err := os.MkdirAll(filepath.Join(base, "work", "sib"), 0o755); err != nil {
		return err
	}
	if err := os.WriteFile(filepath.Join(base, "outside.txt"), []byte("outside"), 0o644); err != nil {
		return err
	}
	if err := os.WriteFile(filepath.Join(base, "work", "sib", "keep.txt"), []byte("keep"), 0o644); err != nil {
		return err
	}
	target := filepath.Join(base, JailTarget)
	switch {
	case spec.ParentIsFile:
		// work/target is a file, the target handed to gtree is work/target/sub
		return os.WriteFile(target, []byte("file"), 0o644)
	case spec.TargetIsFile:
		return os.WriteFile(target, []byte("file"), 0o644)
	case spec.TargetMissing:
		return nil
	}
	if err := os.MkdirAll(target, 0o755); err != nil {
		return err
	}
	if spec.InodeLimit > 0 {
		if err := syscall.Mount("tmpfs", target, "tmpfs", 0, fmt.Sprintf("size=1m,nr_inodes=%d,mode=755", spec.InodeLimit)); err != nil {
			return fmt.Errorf("mount tmpfs: %w", err)
		}
	}
	if err := createEntries(target, spec.Pre); err != nil {
		return err
	}
	if spec.TargetMode != 0 {
		m := os.FileMode(spec.TargetMode & 0o777)
		if spec.TargetMode&0o1000 != 0 {
			m |= os.ModeSticky
		}
		if spec.TargetMode&0o2000 != 0 {
			m |= os.ModeSetgid
		}
		if err := os.Chmod(target, m); err != nil {
			return err
		}
	}
	return nil
}

// createEntries makes the entries below dir.
func createEntries(target string, entries []FSEntry) error {
	sep := string(filepath.Separator)
	lastFile := ""
	for _, e := range entries {
		p := filepath.Join(target, e.Path)
		if !strings.HasPrefix(p, strings.TrimSuffix(target, sep)+sep) {
			return fmt.Errorf("pre-state path escapes target: %q", e.Path)
		}
		switch e.Kind {
		case "d":
			if err := os.MkdirAll(p, 0o755); err != nil {
				return err
			}
		case "f":
			if err := os.MkdirAll(filepath.Dir(p), 0o755); err != nil {
				return err
			}
			if err := os.WriteFile(p, []byte(e.Data), 0o644); err != nil {
				return err
			}
			lastFile = p
		case "h": // a regular file that is a second name (hard link) of the regular file created before it, if any
			if err := os.MkdirAll(filepath.Dir(p), 0o755); err != nil {
				return err
			}
			if lastFile == "" || os.Link(lastFile, p) != nil {
				if err := os.WriteFile(p, []byte(e.Data), 0o644); err != nil {
					return err
				}
			}
			lastFile = p
		case "l":
			if err := os.MkdirAll(filepath.Dir(p), 0o755); err != nil {
				return err
			}
			if err := os.Symlink(e.Data, p); err != nil {
				return err
			}
		}
	}
	return nil
}

// ReleaseJail removes a jail (and detaches the tmpfs an InodeLimit put on its target).
func ReleaseJail(base string) {
	syscall.Unmount(filepath.Join(base, JailTarget), syscall.MNT_DETACH) // EINVAL when nothing is mounted there
	os.RemoveAll(base)
}

// MountWorks reports whether this process may mount a tmpfs (needed for FSSpec.InodeLimit).
func MountWorks(scratch string) bool {
	d, err := os.MkdirTemp(scratch, "mnt-probe")
	if err != nil {
		return false
	}
	defer os.Remove(d)
	if err := syscall.Mount("tmpfs", d, "tmpfs", 0, "size=64k,nr_inodes=2"); err != nil {
		return false
	}
	syscall.Unmount(d, syscall.MNT_DETACH)
	return true
}

// CleanMounts detaches every mount left below dir (a worker killed by its watchdog cannot release its jail).
func CleanMounts(dir string) {
	b, err := os.ReadFile("/proc/self/mounts")
	if err != nil {
		return
	}
	lines := strings.Split(string(b), "\n")
	for i := len(lines) - 1; i >= 0; i-- {
		f := strings.Fields(lines[i])
		if len(f) >= 2 && strings.HasPrefix(f[1], dir+"/") {
			syscall.Unmount(f[1], syscall.MNT_DETACH)
		}
	}
}

// MakeJail creates the jail layout under base (exported for checks that run an external process in a jail).
func MakeJail(base string, spec *FSSpec) error { return makeJail(base, spec) }
