package ops

import (
	"bufio"
	"bytes"
	"encoding/json"
	"fmt"
	"io"
	"os"
	"os/exec"
	"path/filepath"
	"runtime"
	"strings"
	"sync"
	"sync/atomic"
	"syscall"
	"time"
)

// WorkerMain is the loop of the isolated executor: one JSON Case per line on stdin, one JSON Result per line on stdout.
// With VERIF_WORKER=chroot the process first confines itself to VERIF_WORKER_DIR, so that hostile node names cannot
// reach anything outside it. A per-case watchdog turns a call that never returns into a Result with Hang set.
func WorkerMain() {
	mode := os.Getenv("VERIF_WORKER")
	dir := os.Getenv("VERIF_WORKER_DIR")
	env := &Env{Scratch: dir}
	if mode == "chroot" {
		if err := syscall.Chroot(dir); err != nil {
			fmt.Fprintf(os.Stderr, "verif-worker: chroot: %v\n", err)
			os.Exit(97)
		}
		if err := os.Chdir("/"); err != nil {
			fmt.Fprintf(os.Stderr, "verif-worker: chdir: %v\n", err)
			os.Exit(97)
		}
		env = &Env{Scratch: "/", Chrooted: true}
	}
	if mode != "chroot" && dir != "" {
		// relative paths written by a goroutine that outlives its call must land in the scratch directory, never in
		// the directory the harness was started from
		os.MkdirAll(dir, 0o755)
		os.Chdir(dir)
	}
	// a home directory inside the scratch area (it does not exist): code that expands "~" or looks into $HOME shows up
	// in the jail's snapshot instead of touching the real home directory
	os.Setenv("HOME", filepath.Join(env.Scratch, "verif-home"))
	in := bufio.NewReaderSize(os.Stdin, 1<<20)
	out := bufio.NewWriter(os.Stdout)
	var outMu sync.Mutex
	for {
		line, err := in.ReadBytes('\n')
		if len(line) > 0 {
			var c Case
			if e := json.Unmarshal(line, &c); e != nil {
				fmt.Fprintf(os.Stderr, "verif-worker: bad case: %v\n", e)
				os.Exit(98)
			}
			done := make(chan struct{})
			go watchdog(done, &outMu, out)
			res := env.Run(&c)
			if c.Twice {
				res.Second = env.Run(&c)
			}
			close(done)
			b, _ := json.Marshal(res)
			outMu.Lock()
			out.Write(b)
			out.WriteByte('\n')
			out.Flush()
			outMu.Unlock()
			if res.Leaked != "" {
				// leaked goroutines would contaminate later cases
				os.Exit(0)
			}
		}
		if err != nil {
			return
		}
	}
}

var HangDeadline = 20 * time.Second

// BusyDeadline is how much longer a call whose goroutines are still moving may take before it counts as not terminating.
var BusyDeadline = 70 * time.Second

func watchdog(done chan struct{}, mu *sync.Mutex, out *bufio.Writer) {
	select {
	case <-done:
		return
	case <-time.After(HangDeadline):
	}
	// confirm that the gtree goroutines are blocked (two identical dumps one second apart)
	a := strings.Join(gtreeGoroutines(), "\n\n")
	select {
	case <-done:
		return
	case <-time.After(time.Second):
	}
	b := strings.Join(gtreeGoroutines(), "\n\n")
	res := &Result{}
	if stripAddrs(a) == stripAddrs(b) {
		res.Hang = "call did not return within " + HangDeadline.String() + " and its goroutines are blocked:\n" + allStacks()
	} else {
		// still moving: a slow case or a loop that never ends. The cases are small (seconds at most), so a call that is
		// still running after the long deadline is not going to end
		select {
		case <-done:
			return
		case <-time.After(BusyDeadline):
		}
		res.Hang = "call still running after " + (HangDeadline + BusyDeadline).String() + " (its goroutines keep moving: a loop that does not end):\n" + allStacks()
	}
	buf, _ := json.Marshal(res)
	mu.Lock()
	out.Write(buf)
	out.WriteByte('\n')
	out.Flush()
	os.Exit(0)
}

func stripAddrs(s string) string {
	// minutes counters ("[chan receive, 2 minutes]") and argument values may differ; compare function lines only
	var keep []string
	for _, l := range strings.Split(s, "\n") {
		if strings.HasPrefix(l, "\t") || strings.HasPrefix(l, "goroutine ") {
			continue
		}
		if i := strings.LastIndexByte(l, '('); i > 0 {
			l = l[:i]
		}
		keep = append(keep, l)
	}
	return strings.Join(keep, "\n")
}

func allStacks() string {
	buf := make([]byte, 1<<20)
	n := runtime.Stack(buf, true)
	s := string(buf[:n])
	if len(s) > 12000 {
		s = s[:12000] + "..."
	}
	return s
}

// Pool is the client side: it owns one worker process and restarts it when it dies.
type Pool struct {
	Bin    string // worker binary (default: this executable)
	Mode   string // "plain" or "chroot"
	Race   bool
	Dir    string   // scratch dir (created); for chroot the worker confines itself to it
	Prefix []string // command in front of the worker binary (e.g. taskset -c 0: a process confined to one CPU)
	Env    []string // further environment of the worker process (e.g. GOMAXPROCS=1: a process that starts on one CPU)
	cmd    *exec.Cmd
	stdin  io.WriteCloser
	stdout *bufio.Reader
	stderr *tailBuf
	Spawns int
}

type tailBuf struct {
	mu  sync.Mutex
	buf []byte
}

func (t *tailBuf) Write(p []byte) (int, error) {
	t.mu.Lock()
	defer t.mu.Unlock()
	t.buf = append(t.buf, p...)
	if len(t.buf) > 16000 {
		t.buf = t.buf[len(t.buf)-16000:]
	}
	return len(p), nil
}

func (t *tailBuf) String() string {
	t.mu.Lock()
	defer t.mu.Unlock()
	return string(t.buf)
}

func (p *Pool) start() error {
	bin := p.Bin
	if bin == "" {
		bin = os.Args[0]
	}
	if err := os.MkdirAll(p.Dir, 0o755); err != nil {
		return err
	}
	cmd := exec.Command(bin, "-test.run=^$")
	if len(p.Prefix) > 0 {
		cmd = exec.Command(p.Prefix[0], append(append([]string{}, p.Prefix[1:]...), bin, "-test.run=^$")...)
	}
	mode := p.Mode
	if mode == "" {
		mode = "plain"
	}
	cmd.Env = append(os.Environ(), "VERIF_WORKER="+mode, "VERIF_WORKER_DIR="+p.Dir, "GORACE=halt_on_error=1")
	cmd.Env = append(cmd.Env, p.Env...)
	stdin, err := cmd.StdinPipe()
	if err != nil {
		return err
	}
	stdout, err := cmd.StdoutPipe()
	if err != nil {
		return err
	}
	p.stderr = &tailBuf{}
	cmd.Stderr = p.stderr
	if err := cmd.Start(); err != nil {
		return err
	}
	p.cmd, p.stdin, p.stdout = cmd, stdin, bufio.NewReaderSize(stdout, 1<<20)
	p.Spawns++
	return nil
}

func (p *Pool) stop() {
	if p.cmd == nil {
		return
	}
	p.stdin.Close()
	done := make(chan struct{})
	go func() { p.cmd.Wait(); close(done) }()
	select {
	case <-done:
	case <-time.After(2 * time.Second):
		p.cmd.Process.Kill()
		<-done
	}
	p.cmd = nil
}

// Close stops the worker and removes its scratch directory.
func (p *Pool) Close() {
	p.stop()
	if p.Dir != "" {
		os.RemoveAll(p.Dir)
	}
}

// Run sends the case to the worker and waits for the result. If the worker dies the Result says so (Died / Race) and
// a fresh worker is started for the next case.
// InfraCount counts cases that could not be executed (worker not startable, jail not creatable, watchdog without a
// verdict); checks skip such cases, so a run in which they are frequent has shown little and must say so.
var InfraCount atomic.Int64

// LastInfra keeps one example message.
var LastInfra atomic.Value

func (p *Pool) Run(c *Case) *Result {
	res := p.run(c)
	if res.Infra != "" {
		InfraCount.Add(1)
		LastInfra.Store(res.Infra)
	}
	return res
}

func (p *Pool) run(c *Case) *Result {
	if p.cmd == nil {
		if err := p.start(); err != nil {
			return &Result{Infra: "cannot start worker: " + err.Error()}
		}
	}
	b, err := json.Marshal(c)
	if err != nil {
		return &Result{Infra: "marshal: " + err.Error()}
	}
	b = append(b, '\n')
	if _, err := p.stdin.Write(b); err != nil {
		p.stop()
		return &Result{Infra: "worker stdin: " + err.Error()}
	}
	type rd struct {
		line []byte
		err  error
	}
	ch := make(chan rd, 1)
	go func() {
		line, err := p.stdout.ReadBytes('\n')
		ch <- rd{line, err}
	}()
	var got rd
	select {
	case got = <-ch:
	case <-time.After(HangDeadline + BusyDeadline + 30*time.Second):
		p.cmd.Process.Signal(syscall.SIGQUIT)
		time.Sleep(500 * time.Millisecond)
		p.cmd.Process.Kill()
		p.cmd.Wait()
		p.cmd = nil
		return &Result{Infra: "worker silent beyond watchdog: " + tail(p.stderr.String(), 2000)}
	}
	if got.err != nil || len(bytes.TrimSpace(got.line)) == 0 {
		p.cmd.Wait()
		p.cmd = nil
		se := p.stderr.String()
		res := &Result{}
		switch {
		case strings.Contains(se, "WARNING: DATA RACE"):
			res.Race = tail(se, 6000)
		case strings.Contains(se, "verif-worker:"):
			res.Infra = tail(se, 2000)
		case strings.Contains(se, "cannot allocate memory") || strings.Contains(se, "out of memory"):
			res.Infra = "worker out of memory: " + tail(se, 1000)
		default:
			res.Died = tail(se, 4000)
			if res.Died == "" {
				res.Died = "worker exited without output"
			}
		}
		return res
	}
	var res Result
	if err := json.Unmarshal(got.line, &res); err != nil {
		return &Result{Infra: "bad result line: " + err.Error()}
	}
	if res.Leaked != "" || res.Hang != "" || (res.Infra != "" && strings.Contains(res.Infra, "slower than")) {
		// worker exits by itself after reporting these
		p.cmd.Wait()
		p.cmd = nil
	}
	return &res
}

func tail(s string, n int) string {
	if len(s) > n {
		return "..." + s[len(s)-n:]
	}
	return s
}
