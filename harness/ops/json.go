package ops

import (
	"encoding/json"

	"verif/harness/model"
)

// Lossless JSON for every string that may hold arbitrary bytes (see model.EncStr).

func (s AddStep) MarshalJSON() ([]byte, error) {
	type alias AddStep
	a := alias(s)
	a.N = model.EncStr(a.N)
	return json.Marshal(a)
}

func (s *AddStep) UnmarshalJSON(b []byte) error {
	type alias AddStep
	var a alias
	if err := json.Unmarshal(b, &a); err != nil {
		return err
	}
	a.N = model.DecStr(a.N)
	*s = AddStep(a)
	return nil
}

func (o Opts) MarshalJSON() ([]byte, error) {
	type alias Opts
	a := alias(o)
	a.Exts = model.EncStrs(a.Exts)
	return json.Marshal(a)
}

func (o *Opts) UnmarshalJSON(b []byte) error {
	type alias Opts
	var a alias
	if err := json.Unmarshal(b, &a); err != nil {
		return err
	}
	a.Exts = model.DecStrs(a.Exts)
	*o = Opts(a)
	return nil
}

func (c Case) MarshalJSON() ([]byte, error) {
	type alias Case
	a := alias(c)
	if c.Root != nil {
		r := model.EncStr(*c.Root)
		a.Root = &r
	}
	return json.Marshal(a)
}

func (c *Case) UnmarshalJSON(b []byte) error {
	type alias Case
	var a alias
	if err := json.Unmarshal(b, &a); err != nil {
		return err
	}
	if a.Root != nil {
		r := model.DecStr(*a.Root)
		a.Root = &r
	}
	*c = Case(a)
	return nil
}

func (v Visit) MarshalJSON() ([]byte, error) {
	type alias Visit
	a := alias(v)
	a.Name, a.Branch, a.Row, a.Path = model.EncStr(a.Name), model.EncStr(a.Branch), model.EncStr(a.Row), model.EncStr(a.Path)
	return json.Marshal(a)
}

func (v *Visit) UnmarshalJSON(b []byte) error {
	type alias Visit
	var a alias
	if err := json.Unmarshal(b, &a); err != nil {
		return err
	}
	a.Name, a.Branch, a.Row, a.Path = model.DecStr(a.Name), model.DecStr(a.Branch), model.DecStr(a.Row), model.DecStr(a.Path)
	*v = Visit(a)
	return nil
}

func (e ErrInfo) MarshalJSON() ([]byte, error) {
	type alias ErrInfo
	a := alias(e)
	a.Text = model.EncStr(a.Text)
	return json.Marshal(a)
}

func (e *ErrInfo) UnmarshalJSON(b []byte) error {
	type alias ErrInfo
	var a alias
	if err := json.Unmarshal(b, &a); err != nil {
		return err
	}
	a.Text = model.DecStr(a.Text)
	*e = ErrInfo(a)
	return nil
}

func (e FSEntry) MarshalJSON() ([]byte, error) {
	type alias FSEntry
	a := alias(e)
	a.Path = model.EncStr(a.Path)
	return json.Marshal(a)
}

func (e *FSEntry) UnmarshalJSON(b []byte) error {
	type alias FSEntry
	var a alias
	if err := json.Unmarshal(b, &a); err != nil {
		return err
	}
	a.Path = model.DecStr(a.Path)
	*e = FSEntry(a)
	return nil
}

// SnapMap is a filesystem snapshot (see Snap); names on disk are arbitrary bytes, so keys and values travel losslessly.
type SnapMap map[string]string

func (m SnapMap) MarshalJSON() ([]byte, error) {
	if m == nil {
		return []byte("null"), nil
	}
	out := make(map[string]string, len(m))
	for k, v := range m {
		out[model.EncStr(k)] = model.EncStr(v)
	}
	return json.Marshal(out)
}

func (m *SnapMap) UnmarshalJSON(b []byte) error {
	var in map[string]string
	if err := json.Unmarshal(b, &in); err != nil {
		return err
	}
	if in == nil {
		*m = nil
		return nil
	}
	out := make(SnapMap, len(in))
	for k, v := range in {
		out[model.DecStr(k)] = model.DecStr(v)
	}
	*m = out
	return nil
}
