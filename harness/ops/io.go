package ops

import (
	"bufio"
	"context"
	"errors"
	"fmt"
	"io"
	"io/fs"
	"runtime"
	"sync"
	"sync/atomic"
	"time"
)

var (
	ErrReader   = errors.New("verif: injected reader failure")
	ErrWriter   = errors.New("verif: injected writer failure")
	ErrCallback = errors.New("verif: injected callback failure")
)

// injectedErr is a fault value that additionally wraps a well-known error (an endpoint bound to another context reports
// context.Canceled, a closed pipe io.ErrClosedPipe ...): the call must still report it.
type injectedErr struct {
	base error
	wrap error
}

func (e *injectedErr) Error() string   { return e.base.Error() + ": " + e.wrap.Error() }
func (e *injectedErr) Unwrap() []error { return []error{e.base, e.wrap} }

var wrapKinds = []error{nil, context.Canceled, context.DeadlineExceeded, io.ErrUnexpectedEOF, io.ErrClosedPipe, io.EOF}

// FaultErr returns the error value a fault of the given kind injects; errors.Is(result, base) holds for every kind.
func FaultErr(base error, kind int) error {
	// kinds 6..8 (writers only): the BARE well-known value, as a pipe, socket or limited writer reports it
	if base == ErrWriter {
		switch kind {
		case 6:
			return io.EOF
		case 7:
			return io.ErrUnexpectedEOF
		case 8:
			return io.ErrShortWrite
		}
	}
	if kind <= 0 || kind >= len(wrapKinds) {
		return base
	}
	return &injectedErr{base: base, wrap: wrapKinds[kind]}
}

// faultReader delivers doc in chunks, optionally fails after FailAt bytes and optionally cancels a context when the
// read position crosses an offset.
type faultReader struct {
	mu       sync.Mutex
	doc      []byte
	pos      int
	failAt   int
	mode     int
	chunk    int
	yield    int
	cancelAt int
	cancel   context.CancelFunc
	read     int
	errv     error
	failed   bool          // mode 2: the one-off failure has been delivered
	returned bool          // the call under test has returned
	late     int           // bytes delivered after that
	blockAt  int           // >=0: after blockAt bytes the next Read blocks until release is closed (a pipe whose writer is idle)
	release  chan struct{} // closed by the harness once the call under test has returned
	blocked  atomic.Bool   // a Read is (or was) parked
}

func (r *faultReader) Read(p []byte) (int, error) {
	for i := 0; i < r.yield; i++ {
		runtime.Gosched()
	}
	r.mu.Lock()
	if r.release != nil && r.blockAt >= 0 && r.pos >= r.blockAt {
		// nothing more arrives for now: park like a Read on an idle pipe (without holding the lock)
		r.mu.Unlock()
		r.blocked.Store(true)
		<-r.release
		r.mu.Lock()
	}
	defer r.mu.Unlock()
	if len(p) == 0 {
		return 0, nil
	}
	limit := len(r.doc)
	if r.release != nil && r.blockAt >= 0 && r.pos < r.blockAt && r.blockAt < limit {
		select {
		case <-r.release:
		default:
			limit = r.blockAt // deliver up to the point where the input goes quiet
		}
	}
	if r.failAt >= 0 && r.failAt < limit && !((r.mode == 2 || r.mode == 3) && r.failed) {
		limit = r.failAt
	}
	if r.mode == 2 && r.failAt >= 0 && r.failAt <= len(r.doc) && !r.failed && r.pos >= r.failAt {
		// a transient failure: reported once, afterwards the reader works again (like iotest.TimeoutReader)
		r.failed = true
		return 0, r.errv
	}
	if r.pos >= limit {
		if r.failAt >= 0 && r.failAt <= len(r.doc) && r.mode != 2 && !(r.mode == 3 && r.failed) {
			if r.mode == 3 {
				r.failed = true
			}
			return 0, r.errv
		}
		return 0, io.EOF
	}
	n := limit - r.pos
	if n > len(p) {
		n = len(p)
	}
	if r.chunk > 0 && n > r.chunk {
		n = r.chunk
	}
	copy(p, r.doc[r.pos:r.pos+n])
	r.pos += n
	r.read += n
	if r.returned {
		r.late += n
	}
	if r.cancel != nil && r.cancelAt >= 0 && r.pos >= r.cancelAt {
		r.cancel()
		r.cancel = nil
	}
	if r.mode == 1 && r.failAt >= 0 && r.pos == limit && limit == r.failAt {
		return n, r.errv
	}
	if r.mode == 3 && r.failAt >= 0 && !r.failed && r.pos == limit && limit == r.failAt {
		// the error arrives together with the last bytes before it, ONCE; the next Read carries on (more data or EOF)
		r.failed = true
		return n, r.errv
	}
	return n, nil
}

// faultReaderWT is a faultReader that also implements io.WriterTo (like *bufio.Reader or *os.File): WriteTo delivers what
// Read would deliver and reports the same failure.
type faultReaderWT struct{ *faultReader }

func (r faultReaderWT) WriteTo(w io.Writer) (int64, error) {
	var total int64
	buf := make([]byte, 512)
	for {
		n, err := r.faultReader.Read(buf)
		if n > 0 {
			m, werr := w.Write(buf[:n])
			total += int64(m)
			if werr != nil {
				return total, werr
			}
		}
		if err == io.EOF {
			return total, nil
		}
		if err != nil {
			return total, err
		}
	}
}

// CallbackErr returns the error value a failing callback hands back: the harness' own sentinel or one of the standard
// library's well-known values (which the library might use for its own purposes). The walk must return it unchanged.
func CallbackErr(kind int) error {
	switch kind {
	case 1:
		return fs.SkipAll
	case 2:
		return fs.SkipDir
	case 3:
		return io.EOF
	case 4:
		return context.Canceled
	case 5:
		return bufio.ErrTooLong
	case 6:
		return errWrappedTooLong
	case 7:
		return io.ErrUnexpectedEOF
	}
	return ErrCallback
}

var errWrappedTooLong = fmt.Errorf("callback: %w", bufio.ErrTooLong)

// faultReaderCloser also implements io.Closer and notices a Close that arrives while a Read is pending.
type faultReaderCloser struct {
	*faultReader
	inRead   atomic.Int32
	badClose atomic.Bool
}

func (r *faultReaderCloser) Read(p []byte) (int, error) {
	r.inRead.Add(1)
	defer r.inRead.Add(-1)
	n, err := r.faultReader.Read(p)
	if r.faultReader.cancel == nil && r.faultReader.cancelAt >= 0 {
		// the context was cancelled inside this Read: give a hook on cancellation time to run while we are still in Read
		time.Sleep(200 * time.Microsecond)
	}
	return n, err
}

func (r *faultReaderCloser) Close() error {
	if r.inRead.Load() > 0 {
		r.badClose.Store(true)
	}
	return nil
}

// recStringWriter is a recWriter that also implements io.StringWriter (like *os.File); every call counts as a write.
type recStringWriter struct{ *recWriter }

func (w recStringWriter) WriteString(s string) (int, error) { return w.recWriter.Write([]byte(s)) }

// recWriter records the bytes it accepts and fails from write index FailAt on.
type recWriter struct {
	mu       sync.Mutex
	buf      []byte
	writes   int
	offered  int
	failAt   int
	short    int
	once     bool
	failed   bool
	yieldUs  int
	cancelAt int
	cancel   context.CancelFunc
	errv     error
}

func (w *recWriter) Write(p []byte) (int, error) {
	if w.yieldUs > 0 {
		time.Sleep(time.Duration(w.yieldUs) * time.Microsecond)
	} else if w.yieldUs < 0 {
		runtime.Gosched()
	}
	w.mu.Lock()
	defer w.mu.Unlock()
	idx := w.writes
	w.writes++
	w.offered += len(p)
	if w.cancel != nil && w.cancelAt >= 0 && idx >= w.cancelAt {
		w.cancel()
		w.cancel = nil
	}
	if w.failAt >= 0 && (idx == w.failAt || (idx > w.failAt && !w.once)) {
		w.failed = true
		n := 0
		if idx == w.failAt && w.short > 0 && w.short < len(p) {
			n = w.short
		}
		if w.short < 0 {
			n = len(p) // a write-through writer: everything was taken, and the error is reported with the full count
		}
		w.buf = append(w.buf, p[:n]...)
		if w.errv != nil {
			return n, w.errv
		}
		return n, ErrWriter
	}
	w.buf = append(w.buf, p...)
	return len(p), nil
}
