// Package ops executes one generated Case against the real gtree code and records everything observable in a Result.
// The same executor serves in-process checks, the isolated worker process, shrinking and replay.
package ops

import (
	"verif/harness/model"
)

type Opts struct {
	Branch          *model.Branch `json:"branch,omitempty"`
	Encode          string        `json:"encode,omitempty"` // "", json, yaml, toml
	DryRun          bool          `json:"dryrun,omitempty"`
	Exts            []string      `json:"exts,omitempty"`
	HasExts         bool          `json:"hasExts,omitempty"` // pass WithFileExtensions even if Exts is empty
	Strict          bool          `json:"strict,omitempty"`
	Massive         bool          `json:"massive,omitempty"`
	NilCtx          bool          `json:"nilCtx,omitempty"` // WithMassive(nil)
	NoIter          bool          `json:"noIter,omitempty"`
	NilOpts         bool          `json:"nilOpts,omitempty"`         // nil Options are interleaved with the real ones (they must be skipped, not end the list)
	TargetOpt       string        `json:"targetOpt,omitempty"`       // how the target dir is spelled: "" abs, "rel", "slash", "default" (cwd, no option), "raw"
	TargetRaw       string        `json:"targetRaw,omitempty"`       // with TargetOpt "raw": cwd is the jail's target and this string is passed to WithTargetDir
	PassEmptyTarget bool          `json:"passEmptyTarget,omitempty"` // pass WithTargetDir("") like the command line does when the flag is absent
	EarlyOpts       bool          `json:"earlyOpts,omitempty"`       // the option values are constructed while the working directory is "/", the call runs in the case's own working directory
	OptOrder        int           `json:"optOrder,omitempty"`        // >0: the option list is rotated by OptOrder/2 and reversed when odd (options may come in any order)
	Color           bool          `json:"color,omitempty"`           // the call runs with colours enabled (fatih/color.NoColor == false), as when standard output is a terminal
}

// AddStep is one Add call of a From-Root build program: node[i+1] = node[P].Add(N); node[0] is the root.
type AddStep struct {
	P int    `json:"p"`
	N string `json:"n"`
}

type FSEntry struct {
	Path string `json:"path"` // relative to the target directory ("../x" style is not allowed)
	Kind string `json:"kind"` // "d", "f", "l"
	Data string `json:"data,omitempty"`
}

type FSSpec struct {
	Pre           []FSEntry `json:"pre,omitempty"`
	TargetMissing bool      `json:"targetMissing,omitempty"`
	TargetIsFile  bool      `json:"targetIsFile,omitempty"`
	ParentIsFile  bool      `json:"parentIsFile,omitempty"` // the target's parent is a regular file
	TargetMode    uint32    `json:"targetMode,omitempty"`   // permission and sticky/setgid bits of the (existing) target directory, octal as in chmod; 0 = 0755
	Umask         string    `json:"umask,omitempty"`        // octal process umask during the call ("000", "002", "077"); "" = leave it (022)
	// InodeLimit > 0: the target directory is a tmpfs of its own that can hold InodeLimit-1 entries (the pre-state counts):
	// the creation that would exceed it fails with ENOSPC. A fault injector for the filesystem, enumerable per creation.
	InodeLimit int `json:"inodeLimit,omitempty"`
}

type Faults struct {
	ReaderFailAt   int  `json:"readerFailAt"`          // bytes delivered before the reader fails; -1 = never
	ReaderMode     int  `json:"readerMode,omitempty"`  // 0 sticky (0, err); 1 the error arrives with the last bytes, sticky; 2 (0, err) once; 3 (n, err) once, then the reader carries on
	WriterFailAt   int  `json:"writerFailAt"`          // index of the first failing Write; -1 = never
	WriterShort    int  `json:"writerShort,omitempty"` // bytes accepted by the failing Write (0 none, n>0 a short write, -1 all of them: (len(p), err))
	WriterOnce     bool `json:"writerOnce,omitempty"`  // only that one write fails (default: sticky)
	CallbackFailAt int  `json:"callbackFailAt"`
	BreakAt        int  `json:"breakAt"`
	ReaderBlock    int  `json:"readerBlock,omitempty"` // k>0: after k-1 bytes the reader delivers nothing more and its Read blocks (an idle pipe) until the call under test has returned
	CbErrKind      int  `json:"cbErrKind,omitempty"`   // which value the failing callback returns (see CallbackErr); 8 in massive mode: the callback calls runtime.Goexit instead of returning
	CbNested       bool `json:"cbNested,omitempty"`    // From-Root walks: the first callback makes a massive-mode OutputFromRoot call on the same tree
	IOKind         int  `json:"ioKind,omitempty"`      // 1: the reader also implements io.WriterTo and the writer io.StringWriter (code may take other paths for them); 2: the reader is also an io.Closer; 3: a *bytes.Reader; 4: an open regular file; 5: a *bufio.Reader around the fault-injecting reader; 7: a *bytes.Buffer; 10: the WRITER is a terminal (slave side of a pseudo terminal, output taken from the master side); 6: an empty regular file opened write-only (Read fails with EBADF); 8/9: a *bytes.Reader / regular file positioned behind an earlier (hostile) section the caller has already consumed
	ErrKind        int  `json:"errKind,omitempty"`     // which well-known error the injected reader/writer error additionally wraps (see FaultErr)
}

func NoFaults() Faults {
	return Faults{ReaderFailAt: -1, WriterFailAt: -1, CallbackFailAt: -1, BreakAt: -1}
}

type Cancel struct {
	Kind string `json:"kind,omitempty"` // "", pre, atOffset, afterDelay, deadline, atWrite, atCallback
	K    int    `json:"k,omitempty"`
}

type HookAct struct {
	Action string `json:"a"`               // gosched | sleep
	N      int    `json:"n"`               // yields or microseconds
	First  int    `json:"first,omitempty"` // >0: only the first First arrivals at the point are perturbed
}

type Sched struct {
	GOMAXPROCS    int                `json:"gomaxprocs,omitempty"`
	ReadChunk     int                `json:"readChunk,omitempty"`
	ReaderYield   int                `json:"readerYield,omitempty"`
	WriterYieldUs int                `json:"writerYieldUs,omitempty"`
	CbYieldUs     int                `json:"cbYieldUs,omitempty"`
	Hook          map[string]HookAct `json:"hook,omitempty"`
}

type Case struct {
	Op         string    `json:"op"`    // output | walk | walkiter | mkdir | verify
	Entry      string    `json:"entry"` // md | root | alias (deprecated name of the same family)
	Doc        []byte    `json:"doc,omitempty"`
	Root       *string   `json:"root,omitempty"` // root name for From-Root entries (nil = pass a nil node)
	Prog       []AddStep `json:"prog,omitempty"`
	UseSub     int       `json:"useSub,omitempty"`     // >0: pass node[UseSub] (a non-root) instead of the root
	PreOps     []string  `json:"preOps,omitempty"`     // From-Root only: operations run first on the SAME node tree, results ignored
	ColorPre   bool      `json:"colorPre,omitempty"`   // the PreOps run with colours enabled (fatih/color.NoColor == false), as on a terminal
	LateProg   []AddStep `json:"lateProg,omitempty"`   // From-Root walkiter only: Add calls made after the iterator was created and before it is ranged over
	MidProg    []AddStep `json:"midProg,omitempty"`    // From-Root only: Add calls made after the PreOps and before the operation under test
	ZeroNode   bool      `json:"zeroNode,omitempty"`   // From-Root: the node handed over is new(gtree.Node), made by neither NewRoot nor Add
	MidOps     []string  `json:"midOps,omitempty"`     // operations run after MidProg (the tree has grown since the PreOps); "other-<op>" runs <op> on an unrelated tree
	FactOrder  int       `json:"factOrder,omitempty"`  // walks: k>0 = the six facts of every visited node are read in the (k-1)-th permutation of their declared order, and compared with a later re-read
	CopyRoot   bool      `json:"copyRoot,omitempty"`   // From-Root: the node handed over is a copy by value of the root (cp := *root; &cp)
	RangeTwice bool      `json:"rangeTwice,omitempty"` // walkiter: the same iterator value is ranged over a second time
	Nest       int       `json:"nest,omitempty"`       // walkiter: k>0 = while the walk is at its visit k-1, another complete walk of the same tree runs (odd k: over the same iterator value, even k: over a new one)
	NestBreak  bool      `json:"nestBreak,omitempty"`  // the inner walk is left after its first visit
	Opts       Opts      `json:"opts"`
	FS         *FSSpec   `json:"fs,omitempty"`
	Faults     Faults    `json:"faults"`
	Cancel     Cancel    `json:"cancel"`
	Sched      Sched     `json:"sched"`
	Leak       bool      `json:"leak,omitempty"` // run the goroutine-leak scan after return
	Twice      bool      `json:"twice,omitempty"`
}

func NewCase(op, entry string) Case {
	return Case{Op: op, Entry: entry, Faults: NoFaults()}
}

type ErrInfo struct {
	Nil         bool   `json:"nil"`
	Text        string `json:"text,omitempty"`
	IsReader    bool   `json:"isReader,omitempty"`
	IsWriter    bool   `json:"isWriter,omitempty"`
	IsCallback  bool   `json:"isCallback,omitempty"` // identical (==) to the callback sentinel
	IsCtx       bool   `json:"isCtx,omitempty"`
	IsExistPath bool   `json:"isExistPath,omitempty"`
	IsNilNode   bool   `json:"isNilNode,omitempty"`
	IsNotRoot   bool   `json:"isNotRoot,omitempty"`
}

type Visit struct {
	Name     string `json:"name"`
	Branch   string `json:"branch"`
	Row      string `json:"row"`
	Level    uint   `json:"level"`
	Path     string `json:"path"`
	HasChild bool   `json:"hasChild"`
	G        uint64 `json:"g,omitempty"` // goroutine-independent sequence number
}

type Result struct {
	Err             ErrInfo        `json:"err"`
	Out             []byte         `json:"out,omitempty"`    // bytes accepted by the writer
	Color           []byte         `json:"color,omitempty"`  // bytes written to color.Output
	Writes          int            `json:"writes,omitempty"` // Write calls seen
	WriteFailed     bool           `json:"writeFailed,omitempty"`
	Offered         int            `json:"offered,omitempty"` // bytes offered to the writer
	ReadBytes       int            `json:"readBytes,omitempty"`
	LateReadBytes   int            `json:"lateReadBytes,omitempty"`   // bytes the reader was asked for after the call had returned
	CloseDuringRead bool           `json:"closeDuringRead,omitempty"` // the reader's Close was called while one of its Reads was pending
	ReaderParked    bool           `json:"readerParked,omitempty"`    // a Read was parked on the idle reader (Faults.ReaderBlock)
	NestedErr       string         `json:"nestedErr,omitempty"`       // error of the nested call made by the callback (Faults.CbNested)
	Visits          []Visit        `json:"visits,omitempty"`
	VisitsAfter     int            `json:"visitsAfter,omitempty"`  // callbacks after the stop position
	SecondVisits    int            `json:"secondVisits,omitempty"` // visits of the second range over the same iterator value (RangeTwice)
	InnerVisits     int            `json:"innerVisits,omitempty"`  // visits of the nested walk (Case.Nest)
	Before          SnapMap        `json:"before,omitempty"`
	After           SnapMap        `json:"after,omitempty"`
	Panic           string         `json:"panic,omitempty"`
	Hang            string         `json:"hang,omitempty"`
	Leaked          string         `json:"leaked,omitempty"`
	Race            string         `json:"race,omitempty"`
	Died            string         `json:"died,omitempty"` // worker process died (stderr tail)
	Reached         map[string]int `json:"reached,omitempty"`
	CtxCancelled    bool           `json:"ctxCancelled,omitempty"` // the context was cancelled before the call returned
	ElapsedUs       int64          `json:"elapsedUs,omitempty"`
	Second          *Result        `json:"second,omitempty"` // result of the repeated call when Twice
	Infra           string         `json:"infra,omitempty"`  // harness-level problem (never a violation)
}

// Bad reports process-level failures that are violations for every property.
func (r *Result) Crashed() string {
	switch {
	case r.Panic != "":
		return "panic: " + r.Panic
	case r.Died != "":
		return "process died: " + r.Died
	case r.Hang != "":
		return "hang: " + r.Hang
	}
	return ""
}
