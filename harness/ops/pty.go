package ops

import (
	"bytes"
	"fmt"
	"io"
	"os"
	"sync"
	"syscall"
	"time"
	"unsafe"
)

// ptyWriter hands the library the slave side of a pseudo terminal as its writer (an *os.File that IS a terminal) and
// collects what arrives on the master side. Output post-processing is switched off, so the bytes are the bytes written.
type ptyWriter struct {
	master, slave *os.File
	mu            sync.Mutex
	buf           bytes.Buffer
	done          chan struct{}
}

func ioctl(fd uintptr, req uintptr, arg unsafe.Pointer) error {
	if _, _, e := syscall.Syscall(syscall.SYS_IOCTL, fd, req, uintptr(arg)); e != 0 {
		return e
	}
	return nil
}

func openPty() (*ptyWriter, error) {
	m, err := os.OpenFile("/dev/ptmx", os.O_RDWR|syscall.O_NOCTTY, 0)
	if err != nil {
		return nil, err
	}
	var unlock int32
	if err := ioctl(m.Fd(), syscall.TIOCSPTLCK, unsafe.Pointer(&unlock)); err != nil {
		m.Close()
		return nil, err
	}
	var n uint32
	if err := ioctl(m.Fd(), syscall.TIOCGPTN, unsafe.Pointer(&n)); err != nil {
		m.Close()
		return nil, err
	}
	s, err := os.OpenFile(fmt.Sprintf("/dev/pts/%d", n), os.O_RDWR|syscall.O_NOCTTY, 0)
	if err != nil {
		m.Close()
		return nil, err
	}
	var t syscall.Termios
	if err := ioctl(s.Fd(), syscall.TCGETS, unsafe.Pointer(&t)); err == nil {
		t.Oflag &^= syscall.OPOST
		t.Lflag &^= syscall.ECHO
		ioctl(s.Fd(), syscall.TCSETS, unsafe.Pointer(&t))
	}
	p := &ptyWriter{master: m, slave: s, done: make(chan struct{})}
	go func() {
		defer close(p.done)
		b := make([]byte, 32<<10)
		for {
			k, err := m.Read(b)
			p.mu.Lock()
			p.buf.Write(b[:k])
			p.mu.Unlock()
			if err != nil {
				return // EIO once the slave side is closed
			}
		}
	}()
	return p, nil
}

// finish closes the slave side, waits for the rest of the output and returns everything that was written.
func (p *ptyWriter) finish() []byte {
	// closing the last slave descriptor may discard what the master side has not read yet: wait until the output queue is
	// empty and the collected length has stopped growing
	deadline := time.Now().Add(5 * time.Second)
	last, stable := -1, 0
	for time.Now().Before(deadline) {
		var pending int32
		ioctl(p.slave.Fd(), syscall.TIOCOUTQ, unsafe.Pointer(&pending))
		p.mu.Lock()
		n := p.buf.Len()
		p.mu.Unlock()
		if pending == 0 && n == last {
			stable++
			if stable >= 3 {
				break
			}
		} else {
			stable = 0
		}
		last = n
		time.Sleep(2 * time.Millisecond)
	}
	p.slave.Close()
	select {
	case <-p.done:
	case <-time.After(2 * time.Second):
	}
	p.master.Close()
	p.mu.Lock()
	defer p.mu.Unlock()
	return append([]byte{}, p.buf.Bytes()...)
}

var _ io.Writer = (*os.File)(nil)
