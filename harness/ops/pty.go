package ops

import (
	"bytes"
	"fmt"
	"io"
	"os"
	"sync"
	"syscall"
	"time"
	"unsafe"
)

// ptyWriter hands the library the slave side of a pseudo terminal as its writer (an *os.File that IS a terminal) and
// collects what arrives on the master side. Output post-processing is switched off, so the bytes are the bytes written.
type ptyWriter struct {
	master, slave *os.File
	mu            sync.Mutex
	buf           bytes.Buffer
	done          chan struct{}
}

func ioctl(fd uintptr, req uintptr, arg unsafe.Pointer) error {
	if _, _, e := syscall.Syscall(syscall.SYS_IOCTL, fd, req, uintptr(arg)); e != 0 {
		return e
	}
	return nil
}

func openPty() (*ptyWriter, error) {
	m, err := os.OpenFile("/dev/ptmx", os.O_RDWR|syscall.O_NOCTTY, 0)
	if err != nil {
		return nil, err
	}
	var unlock int32
	if err := ioctl(m.Fd(), syscall.TIOCSPTLCK, unsafe.Pointer(&unlock)); err != nil {
		m.Close()
		return nil, err
	}
	var n uint32
	if err := ioctl(m.Fd(), syscall.TIOCGPTN, unsafe.Pointer(&n)); err != nil {
		m.Close()
		return nil, err
	}
	s, err := os.OpenFile(fmt.Sprintf("/dev/pts/%d", n), os.O_RDWR|syscall.O_NOCTTY, 0)
	if err != nil {
		m.Close()
		return nil, err
	}
	var t syscall.Termios
	if err := ioctl(s.Fd(), syscall.TCGETS, unsafe.Pointer(&t)); err == nil {
		t.Oflag &^= syscall.OPOST
		t.Lflag &^= syscall.ECHO
		ioctl(s.Fd(), syscall.TCSETS, unsafe.Pointer(&t))
	}
	p := &ptyWriter{master: m, slave: s, done: make(chan struct{})}
	go func() {
		defer close(p.done)
		b := make([]byte, 32<<10)
		for {
			k, err := m.Read(b)
			p.mu.Lock()
			p.buf.Write(b[:k])
			p.mu.Unlock()
			if err != nil {
				return // EIO once the slave side is closed
			}
		}
	}()
	return p, nil
}

// finish closes the slave side, waits for the rest of the output and returns everything that was written.
func (p *ptyWriter) finish() []byte {
	// closing the last slave descriptor may discard what the master side has not read yet, and the reading goroutine may not
	// have been scheduled for a while on a busy machine: write an end marker through the terminal and wait until it has
	// arrived on the master side; only then close.
	marker := []byte("\x00<<end-of-pty-output>>\x00")
	p.slave.Write(marker)
	deadline := time.Now().Add(30 * time.Second)
	for time.Now().Before(deadline) {
		p.mu.Lock()
		done := bytes.HasSuffix(p.buf.Bytes(), marker)
		p.mu.Unlock()
		if done {
			break
		}
		time.Sleep(time.Millisecond)
	}
	p.slave.Close()
	select {
	case <-p.done:
	case <-time.After(2 * time.Second):
	}
	p.master.Close()
	p.mu.Lock()
	defer p.mu.Unlock()
	out := append([]byte{}, p.buf.Bytes()...)
	if i := bytes.LastIndex(out, marker); i >= 0 {
		out = append(out[:i], out[i+len(marker):]...)
	}
	return out
}

var _ io.Writer = (*os.File)(nil)

// PtyWriter is the exported face of ptyWriter for checks that hand a terminal to an external process.
type PtyWriter struct{ p *ptyWriter }

// OpenPty opens a pseudo terminal; File() is its slave side (a terminal), Finish() returns what was written to it.
func OpenPty() (*PtyWriter, error) {
	p, err := openPty()
	if err != nil {
		return nil, err
	}
	return &PtyWriter{p}, nil
}

func (w *PtyWriter) File() *os.File { return w.p.slave }
func (w *PtyWriter) Finish() []byte { return w.p.finish() }
