package props

import (
	"fmt"
	"strings"
	"testing"

	"verif/harness/model"
	"verif/harness/ops"

	"pgregory.net/rapid"
)

// C05 — Walk visits the rendered tree: same nodes, same order, consistent node facts; first callback error / early
// break ends the walk.

type c05Case struct {
	Forest model.Forest   `json:"forest"`
	Entry  string         `json:"entry"` // md | root | iter | alias | iteralias | mdalias
	Branch *model.Branch  `json:"branch,omitempty"`
	StopAt int            `json:"stopAt"` // -1: no stop
	Sp     model.Spelling `json:"spelling"`
	PreOps []string       `json:"preOps,omitempty"`    // From-Root entries: earlier operations on the same node tree
	Late   int            `json:"late,omitempty"`      // iterator entries: the last Late nodes are added after the iterator was created
	Twice  bool           `json:"twice,omitempty"`     // iterator entries: the same iterator value is ranged over a second time
	Grow   int            `json:"grow,omitempty"`   // From-Root entries with PreOps: the last Grow nodes are added after those operations ...
	MidOps []string       `json:"midOps,omitempty"` // ... and these operations (on the same tree, or "other-<op>" on another tree) run after that, before the walk
	Nest   int            `json:"nest,omitempty"`      // iterator entries: k>0 = a second walk of the same tree runs while the first is at visit k-1
	NestBr bool           `json:"nestBreak,omitempty"` // ... and is left after its first visit
	Facts  int            `json:"facts,omitempty"`     // k>0: the facts of a visited node are read in the (k-1)-th permutation of their declared order (ops.Case.FactOrder)
	CbErr  int            `json:"cbErr,omitempty"`     // callback entries: which error value the callback returns (ops.CallbackErr)
}

func init() { registerReplay("c05", c05Check) }

func c05Check(c c05Case) string {
	merged := model.Merge(c.Forest)
	text, facts := model.Render(merged, branchOrDefault(c.Branch))
	cs := ops.NewCase("walk", "md")
	cs.Opts.Branch = c.Branch
	cs.Faults.CbErrKind = c.CbErr
	cs.FactOrder = c.Facts
	switch c.Entry {
	case "md", "mdalias":
		cs.Entry = c.Entry
		cs.Doc = []byte(model.Spell(c.Forest, c.Sp))
		cs.Faults.CallbackFailAt = c.StopAt
	case "root", "alias":
		cs.Entry = c.Entry
		cs.Root = &c.Forest[0].Name
		cs.Prog = preorderProgram(c.Forest[0])
		cs.PreOps = c.PreOps
		cs.Faults.CallbackFailAt = c.StopAt
		if c.Grow > 0 && c.Grow < len(cs.Prog) && len(c.PreOps) > 0 {
			cs.MidProg = cs.Prog[len(cs.Prog)-c.Grow:]
			cs.Prog = cs.Prog[:len(cs.Prog)-c.Grow]
			cs.MidOps = c.MidOps
		}
	case "iter", "iteralias":
		cs.Op = "walkiter"
		cs.Entry = "root"
		if c.Entry == "iteralias" {
			cs.Entry = "alias"
		}
		cs.Root = &c.Forest[0].Name
		cs.Prog = preorderProgram(model.Merge(c.Forest)[0])
		cs.PreOps = c.PreOps
		if c.Grow > 0 && c.Grow < len(cs.Prog) && len(c.PreOps) > 0 && c.Late == 0 {
			cs.MidProg = cs.Prog[len(cs.Prog)-c.Grow:]
			cs.Prog = cs.Prog[:len(cs.Prog)-c.Grow]
			cs.MidOps = c.MidOps
		}
		if c.Late > 0 && c.Late < len(cs.Prog) {
			// pre-order program: its tail can be added later without changing the final tree
			cs.LateProg = cs.Prog[len(cs.Prog)-c.Late:]
			cs.Prog = cs.Prog[:len(cs.Prog)-c.Late]
		}
		cs.Faults.BreakAt = c.StopAt
		cs.RangeTwice = c.Twice
		cs.Nest, cs.NestBreak = c.Nest, c.NestBr
	}
	res := ops.DefaultEnv.Run(&cs)
	head := fmt.Sprintf("forest %s entry=%s branch=%+v stopAt=%d\n", c.Forest, c.Entry, c.Branch, c.StopAt)
	if cr := res.Crashed(); cr != "" {
		return head + cr
	}
	want := facts
	if c.StopAt >= 0 && c.StopAt < len(facts) {
		want = facts[:c.StopAt+1]
	}
	if len(res.Visits) != len(want) {
		return fmt.Sprintf("%s%d callbacks, want %d (rendered tree has %d lines)", head, len(res.Visits), len(want), len(facts))
	}
	if res.VisitsAfter != 0 {
		return fmt.Sprintf("%s%d callbacks after the stop position", head, res.VisitsAfter)
	}
	for i, v := range res.Visits {
		f := want[i]
		got := model.Fact{Root: f.Root, Row: v.Row, Branch: v.Branch, Name: v.Name, Level: int(v.Level), Path: v.Path, HasChild: v.HasChild}
		if got != f {
			return fmt.Sprintf("%svisit %d: got %+v, want %+v", head, i, got, f)
		}
		if f.Level == 1 {
			if v.Row != v.Name || v.Branch != "" {
				return fmt.Sprintf("%svisit %d (root): Row %q Branch %q Name %q", head, i, v.Row, v.Branch, v.Name)
			}
		} else if v.Row != v.Branch+" "+v.Name {
			return fmt.Sprintf("%svisit %d: Row %q != Branch+\" \"+Name (%q, %q)", head, i, v.Row, v.Branch, v.Name)
		}
	}
	if strings.HasPrefix(c.Entry, "iter") && c.Nest > 0 && c.Nest-1 < len(want) {
		wantInner := len(facts)
		if c.NestBr {
			wantInner = 1
		}
		if res.InnerVisits != wantInner {
			return fmt.Sprintf("%sa second walk of the same tree, run while the first one was at visit %d, made %d visits; want %d", head, c.Nest-1, res.InnerVisits, wantInner)
		}
	}
	if c.Twice && strings.HasPrefix(c.Entry, "iter") && res.SecondVisits != len(facts) {
		return fmt.Sprintf("%sranging over the same iterator value a second time gave %d visits, the tree has %d nodes", head, res.SecondVisits, len(facts))
	}
	stopping := c.StopAt >= 0 && c.StopAt < len(facts)
	isIter := strings.HasPrefix(c.Entry, "iter")
	switch {
	case stopping && !isIter:
		if !res.Err.IsCallback {
			return fmt.Sprintf("%sthe callback's error must be returned unchanged; got %q", head, res.Err.Text)
		}
	default:
		if !res.Err.Nil {
			return fmt.Sprintf("%sunexpected error %q", head, res.Err.Text)
		}
	}
	// differential: the rows are the lines of the text output for the same input and options
	if !stopping && (c.Entry == "md") {
		out, err, pan := outputMD(string(cs.Doc), ops.Opts{Branch: c.Branch})
		if pan != "" || err != nil {
			return fmt.Sprintf("%swalk accepted the document but text output failed: %v %s", head, err, pan)
		}
		var rows []string
		for _, v := range res.Visits {
			rows = append(rows, v.Row+"\n")
		}
		if strings.Join(rows, "") != out || out != text {
			return fmt.Sprintf("%swalk rows differ from the text output: %s", head, firstDiff(strings.Join(rows, ""), out))
		}
	}
	return ""
}

func c05Record(col *collector, c c05Case) {
	n := model.Merge(c.Forest).Count()
	nontrivial := n >= 3 && (c.StopAt < 0 || (c.StopAt > 0 && c.StopAt < n-1))
	cl := []string{"entry:" + c.Entry}
	switch {
	case c.StopAt < 0 || c.StopAt >= n:
		cl = append(cl, "no-stop")
	case c.StopAt == 0:
		cl = append(cl, "stop@first")
	case c.StopAt == n-1:
		cl = append(cl, "stop@last")
	default:
		cl = append(cl, "stop@middle")
	}
	if c.Branch != nil {
		cl = append(cl, "custom-branch")
	}
	if c.Sp.Heading && strings.HasPrefix(c.Entry, "md") {
		cl = append(cl, "heading-roots")
	}
	if len(c.PreOps) > 0 {
		cl = append(cl, "after-earlier-calls-on-the-same-tree")
	}
	if c.Late > 0 {
		cl = append(cl, "nodes-added-between-iterator-creation-and-range")
	}
	if d := model.Merge(c.Forest).Depth(); d >= 18 {
		cl = append(cl, "depth>=18")
	}
	col.eval(nontrivial, hash64(c.Forest.String(), c.Entry, fmt.Sprint(c.Branch, c.StopAt, c.PreOps, c.Late, c.Twice, c.CbErr, c.Nest, c.NestBr, c.Grow, c.MidOps, c.Facts), model.Spell(c.Forest, c.Sp)), cl...)
	col.sample(func() any {
		return map[string]any{"forest": c.Forest.String(), "entry": c.Entry, "stopAt": c.StopAt, "branch": c.Branch}
	})
}

func TestC05Exhaustive(t *testing.T) {
	col := coll("C05", "exhaustive")
	maxN := pick(5, 8)
	col.Rule = fmt.Sprintf("all forests <=%d nodes over {a,b} x every stop position k (and no stop) x entry points (md for every forest; root, iter and the deprecated aliases for single-root forests) x rotating branch/spelling panel", maxN)
	i, rot := 0, 0
	model.EnumForests(maxN, []string{"a", "b"}, func(f model.Forest) {
		i++
		if i%nshards != shard {
			return
		}
		n := model.Merge(f).Count()
		entries := []string{"md"}
		if len(f) == 1 {
			entries = []string{"md", "root", "iter", "alias", "iteralias", "mdalias"}
		}
		for _, e := range entries {
			for k := -1; k < n; k++ {
				rot++
				sp := model.Panel[rot%len(model.Panel)]
				if sp.Heading && !f.HeadingOK() {
					sp = model.Plain2
				}
				c := c05Case{Forest: f, Entry: e, Branch: branchPanel[rot%len(branchPanel)], StopAt: k, Sp: sp, Twice: rot%2 == 0, CbErr: (rot / 2) % 8}
				if rot%2 == 1 {
					c.Facts = 1 + (rot*7)%720 // every other case reads the node facts in another order
				}
				if strings.HasPrefix(e, "iter") && rot%3 == 0 {
					c.Nest, c.NestBr = 1+rot%n, rot%2 == 1
				}
				c05Record(col, c)
				if msg := c05Check(c); msg != "" {
					violation(t, "C05", "c05", c, msg)
				}
			}
		}
	})
	col.Exhaustive = true
}

func c05Gen() *rapid.Generator[c05Case] {
	return rapid.Custom(func(t *rapid.T) c05Case {
		entry := rapid.SampledFrom([]string{"md", "md", "root", "iter", "alias", "iteralias", "mdalias"}).Draw(t, "entry")
		names := sampled(validElemPool())
		maxNodes, maxDepth := 16, 10
		switch rapid.IntRange(0, 19).Draw(t, "big") {
		case 0:
			maxNodes = 150
		case 1, 2: // deep trees (recursion depth, stack growth): up to 90 levels
			maxNodes, maxDepth = 200, 90
		}
		var f model.Forest
		if maxDepth > 10 {
			f = genDeepForest(names, !strings.HasPrefix(entry, "md")).Draw(t, "deepForest")
		} else {
			f = genForest(forestParams{maxNodes: maxNodes, maxDepth: maxDepth, names: names, oneRoot: !strings.HasPrefix(entry, "md")}).Draw(t, "forest")
		}
		if rapid.IntRange(0, 29).Draw(t, "long") == 0 {
			withLongName(t, f)
		}
		c := c05Case{Forest: f, Entry: entry, Branch: genBranch().Draw(t, "branch"), StopAt: -1}
		c.Sp = genSpelling(f.HeadingOK()).Draw(t, "spelling")
		maybeMixed(t, &c.Sp, len(f))
		maybeNoGap(t, &c.Sp)
		if rapid.Bool().Draw(t, "stop") {
			c.StopAt = rapid.IntRange(0, model.Merge(f).Count()-1).Draw(t, "stopAt")
		}
		if !strings.HasPrefix(entry, "md") && rapid.IntRange(0, 2).Draw(t, "withPreOps") == 0 {
			c.PreOps = rapid.SliceOfN(rapid.SampledFrom(preOpPool), 1, 3).Draw(t, "preOps")
			if rapid.Bool().Draw(t, "growAfter") {
				c.Grow = rapid.IntRange(1, 3).Draw(t, "grow")
				c.MidOps = rapid.SliceOfN(rapid.SampledFrom([]string{"json", "yaml", "toml", "other-output", "other-walk", "other-json", "output-massive", "other-dryrun"}), 0, 2).Draw(t, "midOps")
			}
		}
		if rapid.Bool().Draw(t, "permuteFacts") {
			c.Facts = rapid.IntRange(1, 720).Draw(t, "facts")
		}
		c.Twice = strings.HasPrefix(entry, "iter") && rapid.IntRange(0, 2).Draw(t, "twice") == 0
		if !strings.HasPrefix(entry, "iter") && c.StopAt >= 0 {
			c.CbErr = rapid.IntRange(0, 7).Draw(t, "cbErr")
		}
		if strings.HasPrefix(entry, "iter") && rapid.IntRange(0, 2).Draw(t, "nested") == 0 {
			c.Nest = 1 + rapid.IntRange(0, model.Merge(f).Count()-1).Draw(t, "nestAt")
			c.NestBr = rapid.Bool().Draw(t, "nestBreak")
		}
		if strings.HasPrefix(entry, "iter") && rapid.IntRange(0, 2).Draw(t, "late") == 0 {
			c.Late = rapid.IntRange(1, 5).Draw(t, "nlate")
		}
		return c
	})
}

func TestC05Random(t *testing.T) {
	col := coll("C05", "random")
	col.Rule = "rapid: forests with single-path-element names (bullets, blanks, Unicode allowed) x entry point x branch 4-tuple x stop position; non-trivial = >=3 nodes and the stop (if any) strictly inside"
	rapid.Check(t, func(rt *rapid.T) {
		c := c05Gen().Draw(rt, "case")
		c05Record(col, c)
		if msg := c05Check(c); msg != "" {
			violation(rt, "C05", "c05", c, msg)
		}
	})
}
