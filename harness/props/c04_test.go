package props

import (
	"encoding/json"
	"fmt"
	"os"
	"os/exec"
	"path/filepath"
	"strings"
	"testing"
	"unicode/utf8"

	"verif/harness/model"
	"verif/harness/ops"

	"pgregory.net/rapid"
)

// C04 — JSON, YAML and TOML outputs are well-formed and isomorphic to the tree (round-trip through independent decoders).

type c04Case struct {
	Forest model.Forest `json:"forest"`
	Format string       `json:"format"`
	Entry  string       `json:"entry"`           // md | root | noiter | md-massive
	Tty    bool         `json:"tty,omitempty"`   // the writer is a terminal (slave side of a pseudo terminal)
	Copy   bool         `json:"copy,omitempty"`  // root entry: the root is handed over as a copy by value (cp := *root; &cp), which shares the children
	Again  int          `json:"again,omitempty"` // root entry: the tree was already encoded once when its last Again nodes were still missing
}

func init() { registerReplay("c04", c04Check) }

func c04Check(c c04Case) string {
	merged := model.Merge(c.Forest)
	cs := ops.NewCase("output", "md")
	cs.Opts.Encode = c.Format
	cs.Opts.NilOpts = len(c.Forest)%2 == 0 || c.Again > 0
	if c.Tty {
		cs.Faults.IOKind = 10
	}
	switch c.Entry {
	case "root":
		cs.Entry = "root"
		cs.Root = &c.Forest[0].Name
		cs.Prog = preorderProgram(model.Merge(c.Forest)[0])
		cs.CopyRoot = c.Copy
		if c.Again > 0 && c.Again < len(cs.Prog) {
			cs.MidProg = cs.Prog[len(cs.Prog)-c.Again:]
			cs.Prog = cs.Prog[:len(cs.Prog)-c.Again]
			cs.PreOps = []string{c.Format, "output"}
		}
		if c.Again > 0 {
			cs.PreOps = append(cs.PreOps, "dryrun")
			cs.ColorPre = len(c.Forest[0].Name)%2 == 0 // half of them as on a colour terminal
		}
	case "noiter":
		cs.Opts.NoIter = true
		fallthrough
	default:
		cs.Doc = []byte(model.Spell(c.Forest, model.Plain2))
	}
	var res *ops.Result
	if c.Entry == "md-massive" {
		cs.Opts.Massive = true
		res = pool("plain").Run(&cs)
	} else {
		res = ops.DefaultEnv.Run(&cs)
	}
	if res.Infra != "" {
		return ""
	}
	head := fmt.Sprintf("forest %s format=%s entry=%s\n", c.Forest, c.Format, c.Entry)
	if cr := res.Crashed(); cr != "" {
		return head + cr
	}
	if !res.Err.Nil {
		return head + "encoding failed: " + res.Err.Text
	}
	got, err := decodeEncoded(c.Format, res.Out)
	if err != nil {
		return fmt.Sprintf("%soutput is not well-formed %s: %v\n%s", head, c.Format, err, res.Out)
	}
	if c.Entry == "md-massive" {
		if !forestMultisetEqual(got, merged) {
			return fmt.Sprintf("%sdecoded massive output %s differs (as a multiset of roots) from the tree %s\noutput:\n%s", head, got, merged, res.Out)
		}
	} else if !model.EqualForest(got, merged) {
		return fmt.Sprintf("%sdecoded output %s differs from the tree %s\noutput:\n%s", head, got, merged, res.Out)
	}
	if c.Format == "json" && strings.Count(string(res.Out), "\n") != len(merged) {
		return fmt.Sprintf("%s%d roots but %d lines of JSON", head, len(merged), strings.Count(string(res.Out), "\n"))
	}
	return ""
}

func needsQuoting(n string) bool {
	if n == "" {
		return true
	}
	for _, r := range n {
		if !(r >= 'a' && r <= 'z' || r >= 'A' && r <= 'Z') {
			return true
		}
	}
	switch strings.ToLower(n) {
	case "null", "true", "false", "yes", "no", "on", "off", "y", "n":
		return true
	}
	return false
}

func c04Record(col *collector, c c04Case) {
	m := model.Merge(c.Forest)
	hostile, ctrl, numlike := false, false, false
	for _, n := range c.Forest.Names() {
		if needsQuoting(n) {
			hostile = true
		}
		for _, r := range n {
			if r < 0x20 || r == 0x7f || r == 0x85 || r == 0x2028 || r == 0xfeff {
				ctrl = true
			}
		}
		switch n {
		case "null", "true", "false", "1e3", "0x1f", "123", "1.5", "~", "yes", "No", "on", ".inf", "2001-01-01", "0o17":
			numlike = true
		}
	}
	cl := []string{"format:" + c.Format, "entry:" + c.Entry}
	if hostile {
		cl = append(cl, c.Format+":needs-quote")
	}
	if ctrl {
		cl = append(cl, c.Format+":control-char")
	}
	if numlike {
		cl = append(cl, c.Format+":looks-like-number/bool/null")
	}
	if len(m) >= 2 {
		cl = append(cl, "multi-root")
	}
	if m.Depth() >= 6 {
		cl = append(cl, "deep>=6")
	}
	if m.Depth() >= 34 {
		cl = append(cl, "deep>=34")
	}
	if c.Tty {
		cl = append(cl, "writer-is-a-terminal")
	}
	col.eval(hostile && m.Depth() >= 2, hash64(c.Forest.String(), c.Format, c.Entry, fmt.Sprint(c.Again, c.Tty, c.Copy)), cl...)
	col.sample(func() any { return map[string]any{"forest": c.Forest.String(), "format": c.Format, "entry": c.Entry} })
}

func c04Names(entry string) []string {
	var out []string
	for _, p := range [][]string{poolEncoding, poolEncoding, poolSyntax, poolUnicode, poolTiny} {
		for _, n := range p {
			if !utf8.ValidString(n) {
				continue
			}
			if entry != "root" && !model.NameOKForItem(n) {
				continue
			}
			out = append(out, n)
		}
	}
	if entry == "root" {
		out = append(out, "a\nb", "\n", "a\r", "", "x\r\ny", " ", "\t")
	}
	return out
}

// c04Excluded names the known-finding region a case falls in ("" if none).
func c04Excluded(c c04Case) string {
	if c.Format == "yaml" && known("C04", "yaml-multiline-name") {
		for _, n := range c.Forest.Names() {
			if strings.Contains(n, "\n") {
				return "yaml-multiline-name"
			}
		}
	}
	return ""
}

// TestC04Known runs the fixed probe case of every listed known finding: while it still fails the KNOWN-FINDING line is
// reported; when it passes nothing is printed.
func TestC04Known(t *testing.T) {
	col := coll("C04", "known-probes")
	if known("C04", "yaml-multiline-name") {
		c := c04Case{Forest: model.Forest{{Name: "r", Kids: []*model.T{{Name: "\n"}}}}, Format: "yaml", Entry: "root"}
		col.eval(false, 0, "known-probe")
		if msg := c04Check(c); msg != "" {
			col.knownFinding("key=yaml-multiline-name YAML output of From-Root names containing a line break does not read back: NewRoot(\"r\").Add(\"\\n\") decodes to a different name")
		}
	}
}

func TestC04Exhaustive(t *testing.T) {
	col := coll("C04", "exhaustive")
	maxN := pick(4, 6)
	names := c04Names("md")
	col.Rule = fmt.Sprintf("all forest shapes <=%d nodes x every node position holding each of %d hostile names (others 'a'/'b') x {json,yaml,toml(single root)} x {md, noiter, root}", maxN, len(dedup(names)))
	names = dedup(names)
	idx := 0
	for n := 1; n <= maxN; n++ {
		model.EnumShapes(n, func(shape model.Forest) {
			for pos := 0; pos < n; pos++ {
				idx++
				if idx%nshards != shard {
					continue
				}
				for _, hn := range names {
					f := shape.Clone()
					i := 0
					f.Walk(func(_ int, ch []*model.T) {
						nd := ch[len(ch)-1]
						if i == pos {
							nd.Name = hn
						} else {
							nd.Name = string(rune('a' + i%2))
						}
						i++
					})
					for _, format := range []string{"json", "yaml", "toml"} {
						if format == "toml" && len(f) != 1 {
							continue
						}
						entries := []string{"md", "noiter"}
						if len(f) == 1 {
							entries = append(entries, "root")
						}
						for _, e := range entries {
							c := c04Case{Forest: f, Format: format, Entry: e}
							if k := c04Excluded(c); k != "" {
								col.excluded(k)
								continue
							}
							c04Record(col, c)
							if msg := c04Check(c); msg != "" {
								violation(t, "C04", "c04", c, msg)
							}
						}
					}
				}
			}
		})
	}
	col.Exhaustive = true
}

func dedup(in []string) []string {
	seen := map[string]bool{}
	var out []string
	for _, s := range in {
		if !seen[s] {
			seen[s] = true
			out = append(out, s)
		}
	}
	return out
}

func c04Gen() *rapid.Generator[c04Case] {
	return rapid.Custom(func(t *rapid.T) c04Case {
		format := rapid.SampledFrom([]string{"json", "yaml", "toml"}).Draw(t, "format")
		entry := rapid.SampledFrom([]string{"md", "md", "noiter", "noiter", "root", "root", "md-massive"}).Draw(t, "entry")
		pool := c04Names(entry)
		if format == "yaml" && known("C04", "yaml-multiline-name") {
			var p2 []string
			for _, n := range pool {
				if !strings.Contains(n, "\n") {
					p2 = append(p2, n)
				}
			}
			pool = p2
		}
		free := rapid.Custom(func(t *rapid.T) string {
			s := genFreeName().Draw(t, "free")
			if !utf8.ValidString(s) {
				return "u"
			}
			return s
		})
		names := rapid.OneOf(sampled(pool), sampled(pool), free)
		maxNodes, maxDepth := 12, 10
		switch rapid.IntRange(0, 19).Draw(t, "big") {
		case 0:
			maxNodes = 100
		case 1, 2: // deep nesting (up to 90 levels)
			maxNodes, maxDepth = 200, 90
		}
		var f model.Forest
		if maxDepth > 10 {
			f = genDeepForest(names, format == "toml" || entry == "root").Draw(t, "deepForest")
		} else {
			f = genForest(forestParams{maxNodes: maxNodes, maxDepth: maxDepth, names: names, oneRoot: format == "toml" || entry == "root"}).Draw(t, "forest")
		}
		c := c04Case{Forest: f, Format: format, Entry: entry}
		c.Tty = rapid.IntRange(0, 5).Draw(t, "tty") == 0 && ptyOK()
		c.Copy = entry == "root" && rapid.IntRange(0, 3).Draw(t, "copy") == 0
		if entry == "root" && rapid.IntRange(0, 2).Draw(t, "again") == 0 {
			c.Again = rapid.IntRange(1, 4).Draw(t, "nAgain")
		}
		return c
	})
}

// second opinion (thorough tier): a sample of the outputs is decoded again by python3 (json, PyYAML, tomllib), which shares
// no code with the Go decoders, to guard against a symmetric bug in the Go YAML/TOML libraries used on both sides.
type c04Sample struct {
	ID     int    `json:"id"`
	Format string `json:"format"`
	Out    []byte `json:"out"`
	Want   []any  `json:"want"`
}

func forestToAny(f model.Forest) []any {
	var out []any
	for _, t := range f {
		out = append(out, []any{t.Name, forestToAny(t.Kids)})
	}
	if out == nil {
		out = []any{}
	}
	return out
}

func c04SecondOpinion(t *testing.T, col *collector, samples []c04Sample) {
	if len(samples) == 0 || outDir == "" {
		return
	}
	path := filepath.Join(outDir, fmt.Sprintf("c04.samples.%d.jsonl", shard))
	var sb strings.Builder
	for _, s := range samples {
		b, _ := json.Marshal(s)
		sb.Write(b)
		sb.WriteByte('\n')
	}
	if err := os.WriteFile(path, []byte(sb.String()), 0o644); err != nil {
		return
	}
	out, err := exec.Command("python3", filepath.Join("..", "..", "tools", "second_opinion.py"), path).CombinedOutput()
	if err != nil {
		col.note("python3 second opinion not available: " + err.Error())
		return
	}
	lines := strings.Split(strings.TrimSpace(string(out)), "\n")
	col.note("python3 second opinion: " + lines[len(lines)-1])
	for _, l := range lines {
		if strings.HasPrefix(l, "MISMATCH") {
			violation(t, "C04", "c04py", map[string]string{"line": l}, "python3 decodes gtree's output to a different structure than the tree:\n"+l)
		}
		if strings.HasPrefix(l, "DECODE-ERROR") {
			col.class("python-decoder-rejects(observation)")
		}
	}
}

func TestC04Random(t *testing.T) {
	var samples []c04Sample
	defer func() { c04SecondOpinion(t, coll("C04", "random"), samples) }()
	col := coll("C04", "random")
	col.Rule = "rapid: forests with names weighted towards an encoding-hostile pool (quotes, colons, hashes, backslashes, YAML/TOML keywords, control characters, Unicode line separators, BOM; From-Root additionally newlines and empty names) x format x entry; non-trivial = some name needs quoting and depth>=2"
	rapid.Check(t, func(rt *rapid.T) {
		c := c04Gen().Draw(rt, "case")
		if k := c04Excluded(c); k != "" {
			col.excluded(k)
			return
		}
		c04Record(col, c)
		if msg := c04Check(c); msg != "" {
			violation(rt, "C04", "c04", c, msg)
		}
		if thorough() && len(samples) < 4000 && c.Entry != "root" {
			if out, err, pan := outputMD(model.Spell(c.Forest, model.Plain2), ops.Opts{Encode: c.Format, NoIter: c.Entry == "noiter"}); err == nil && pan == "" {
				samples = append(samples, c04Sample{ID: len(samples), Format: c.Format, Out: []byte(out), Want: forestToAny(model.Merge(c.Forest))})
			}
		}
	})
}

// An encoded output must be well-formed and isomorphic whatever happened before in the process: here an earlier encoded
// output whose writer failed (at every write index, plain and short writes) precedes the checked call.
func TestC04AfterFault(t *testing.T) {
	col := coll("C04", "after-fault")
	col.Rule = "history: an encoded output (same or other format) whose writer fails at write index j (plain / short write), then the checked encoded output with a healthy writer must still decode to the tree; all forests <=3 nodes + 2 extra roots x formats x j in 0..5 x simple/massive"
	i := 0
	model.EnumForests(3, []string{"a", "b"}, func(f0 model.Forest) {
		i++
		if i%nshards != shard {
			return
		}
		f := append(f0.Clone(), &model.T{Name: "x", Kids: []*model.T{{Name: "y"}}})
		for fi, format := range []string{"json", "yaml", "toml"} {
			ff := f
			if format == "toml" {
				ff = model.Forest{f[len(f)-1]}
			}
			for j := 0; j < 6; j++ {
				for _, massive := range []bool{false, true} {
					bad := ops.NewCase("output", "md")
					bad.Doc = []byte(model.Spell(f, model.Plain2))
					bad.Opts.Encode = []string{"json", "yaml", "json"}[(fi+j)%3]
					bad.Opts.Massive = massive
					bad.Faults.WriterFailAt = j
					bad.Faults.WriterShort = j % 2
					ops.DefaultEnv.Run(&bad)
					c := c04Case{Forest: ff, Format: format, Entry: []string{"md", "noiter", "root"}[j%3]}
					if c.Entry == "root" && len(ff) != 1 {
						c.Entry = "md"
					}
					col.eval(true, hash64(ff.String(), format, fmt.Sprint(j, massive)), "after-failed-write", "format:"+format)
					col.sample(func() any {
						return map[string]any{"first": "encoded output, writer fails at write " + fmt.Sprint(j), "then": c}
					})
					if msg := c04Check(c); msg != "" {
						violation(t, "C04", "c04", c, "after an earlier encoded output whose writer failed at write "+fmt.Sprint(j)+":\n"+msg)
					}
				}
			}
		}
	})
	col.Exhaustive = true
}

// ---- wide nodes ---------------------------------------------------------------------------------------------------------

type c04Wide struct {
	W      int    `json:"w"`     // children of the root
	Grand  int    `json:"grand"` // every Grand-th child has W2 children of its own (0: none)
	W2     int    `json:"w2"`
	Tail   int    `json:"tail"` // the last Tail children have one child each
	Around bool   `json:"around,omitempty"` // a small root before and after the wide one (JSON / YAML, From-Markdown)
	Format string `json:"format"`
	Entry  string `json:"entry"`
}

func init() { registerReplay("c04w", c04WideCheck) }

func c04WideCheck(c c04Wide) string {
	r := &model.T{Name: "wide"}
	for i := 0; i < c.W; i++ {
		k := &model.T{Name: fmt.Sprintf("k%d", i)}
		if c.Grand > 0 && i%c.Grand == 0 {
			for j := 0; j < c.W2; j++ {
				k.Kids = append(k.Kids, &model.T{Name: fmt.Sprintf("g%d-%d", i, j)})
			}
		}
		if i >= c.W-c.Tail && len(k.Kids) == 0 {
			k.Kids = []*model.T{{Name: fmt.Sprintf("t%d", i)}}
		}
		r.Kids = append(r.Kids, k)
	}
	f := model.Forest{r}
	if c.Around && c.Format != "toml" && c.Entry != "root" {
		f = model.Forest{{Name: "small", Kids: []*model.T{{Name: "s"}}}, r, {Name: "last"}}
	}
	msg := c04Check(c04Case{Forest: f, Format: c.Format, Entry: c.Entry})
	if msg == "" {
		return ""
	}
	return fmt.Sprintf("a root with %d children (every %d-th with %d children of its own, the last %d with one child each; small roots around it: %v), format=%s entry=%s:\n%s", c.W, c.Grand, c.W2, c.Tail, c.Around, c.Format, c.Entry, truncate(msg, 1500))
}

func TestC04Wide(t *testing.T) {
	col := coll("C04", "wide")
	ws := []int{255, 256, 257, 1023, 1024, 1025, 1027}
	if thorough() {
		ws = append(ws, 2047, 2048, 2050, 4096, 4099, 10000)
	}
	col.Rule = fmt.Sprintf("one root with W children, W in %v, as leaves, each with one child, every 100th with 3 children plus the last 9 with one, every 500th with 1030 children plus the last 3 with one x format x entry (md, noiter, root, md-massive); oracle as in the other parts (decode, compare with the tree)", ws)
	n := 0
	for _, w := range ws {
		for _, g := range [][3]int{{0, 0, 0}, {1, 1, 0}, {100, 3, 9}, {500, 1030, 3}} {
			for _, format := range []string{"json", "yaml", "toml"} {
				for _, entry := range []string{"md", "noiter", "root", "md-massive"} {
					n++
					if n%nshards != shard {
						continue
					}
					// (the quick tier runs a third of the combinations, chosen by a hash so that no dimension is left out)
					if !thorough() && hash64(fmt.Sprint(w, g, format, entry))%3 != 0 {
						continue
					}
					for _, around := range []bool{false, true} {
						if around && (format == "toml" || entry == "root") {
							continue // single-root only
						}
						c := c04Wide{W: w, Grand: g[0], W2: g[1], Tail: g[2], Format: format, Entry: entry, Around: around}
						col.eval(true, hash64(fmt.Sprint(c)), "format:"+format, "entry:"+entry, fmt.Sprintf("w>=1024:%v", w >= 1024), fmt.Sprintf("small-roots-around:%v", around))
						col.sample(func() any { return c })
						if msg := c04WideCheck(c); msg != "" {
							violation(t, "C04", "c04w", c, msg)
						}
					}
				}
			}
		}
	}
}
