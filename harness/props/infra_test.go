package props

import (
	"os/exec"
	"encoding/binary"
	"encoding/json"
	"fmt"
	"hash/fnv"
	"os"
	"path/filepath"
	"sort"
	"strconv"
	"strings"
	"sync"
	"testing"

	"verif/harness/ops"

	"pgregory.net/rapid"
)

// ---- environment ----------------------------------------------------------------------------------------------------

var (
	outDir   = envOr("VERIF_OUT", "")
	tier     = envOr("VERIF_TIER", "quick")
	shard    = envInt("VERIF_SHARD", 0)
	nshards  = envInt("VERIF_NSHARDS", 1)
	scratch  = envOr("VERIF_SCRATCH", "")
	raceBin  = envOr("VERIF_RACE_BIN", "")
	knownTxt = envOr("VERIF_KNOWN", "../../KNOWN_FINDINGS.txt")
)

func envOr(k, d string) string {
	if v := os.Getenv(k); v != "" {
		return v
	}
	return d
}

func envInt(k string, d int) int {
	if v := os.Getenv(k); v != "" {
		if n, err := strconv.Atoi(v); err == nil {
			return n
		}
	}
	return d
}

func thorough() bool { return tier == "thorough" }

// pick returns q for the quick tier and t for the thorough tier.
func pick(q, t int) int {
	if thorough() {
		return t
	}
	return q
}

func TestMain(m *testing.M) {
	if os.Getenv("VERIF_WORKER") != "" {
		ops.WorkerMain()
		return
	}
	ownScratch := ""
	if scratch == "" {
		d, err := os.MkdirTemp(firstWritable("/dev/shm", os.TempDir()), "gtree-verif-")
		if err != nil {
			fmt.Fprintln(os.Stderr, "verif: cannot create scratch:", err)
			os.Exit(2)
		}
		scratch = d
		ownScratch = d
	}
	ops.DefaultEnv.Scratch = filepath.Join(scratch, fmt.Sprintf("inproc.%d", os.Getpid()))
	os.MkdirAll(ops.DefaultEnv.Scratch, 0o755)
	ops.DefaultEnv.Guard = true
	os.Setenv("HOME", filepath.Join(ops.DefaultEnv.Scratch, "verif-home")) // (does not exist; see ops.WorkerMain)
	loadKnown()
	code := m.Run()
	closePools()
	if n := ops.InfraCount.Load(); n > 0 {
		var total int64
		collMu.Lock()
		for _, c := range collectors {
			total += c.Evals
			c.Notes = append(c.Notes, fmt.Sprintf("%d cases could not be executed by the harness and were skipped (e.g. %v)", n, ops.LastInfra.Load()))
		}
		collMu.Unlock()
		if n > 20 && n*20 > total { // more than 5% of the cases: the run has shown too little
			fmt.Printf("INFRA %d of %d cases could not be executed (e.g. %v)\n", n, total, ops.LastInfra.Load())
			if code == 0 {
				code = 3
			}
		}
	}
	flushAll()
	ops.CleanMounts(scratch)
	os.RemoveAll(ops.DefaultEnv.Scratch)
	if ownScratch != "" {
		os.RemoveAll(ownScratch)
	}
	os.Exit(code)
}

func firstWritable(dirs ...string) string {
	for _, d := range dirs {
		f, err := os.CreateTemp(d, "w")
		if err == nil {
			f.Close()
			os.Remove(f.Name())
			return d
		}
	}
	return ""
}

// ---- known findings -------------------------------------------------------------------------------------------------

type knownLine struct{ prop, key, text string }

var knownFindings []knownLine

func loadKnown() {
	b, err := os.ReadFile(knownTxt)
	if err != nil {
		return
	}
	for _, l := range strings.Split(string(b), "\n") {
		l = strings.TrimSpace(l)
		if !strings.HasPrefix(l, "known:") {
			continue
		}
		var k knownLine
		for _, f := range strings.Fields(l) {
			if strings.HasPrefix(f, "property=") {
				k.prop = strings.TrimPrefix(f, "property=")
			}
			if strings.HasPrefix(f, "key=") {
				k.key = strings.TrimPrefix(f, "key=")
			}
		}
		if i := strings.Index(l, "key="+k.key); i >= 0 {
			k.text = strings.TrimSpace(l[i+len("key="+k.key):])
		}
		knownFindings = append(knownFindings, k)
	}
}

// known reports whether KNOWN_FINDINGS.txt lists key for prop.
func known(prop, key string) bool {
	for _, k := range knownFindings {
		if k.prop == prop && k.key == key {
			return true
		}
	}
	return false
}

// ---- evidence collector ---------------------------------------------------------------------------------------------

type collector struct {
	mu         sync.Mutex
	Prop       string `json:"property"`
	Part       string `json:"part"`
	Evals      int64  `json:"evaluations"`
	hashes     map[uint64]struct{}
	Classes    map[string]int64 `json:"classes"`
	Samples    []any            `json:"samples"`
	Excluded   map[string]int64 `json:"excluded_known"`
	Exhaustive bool             `json:"exhaustive"`
	KnownLines []string         `json:"known_lines"`
	Notes      []string         `json:"notes"`
	Rule       string           `json:"rule"`
	sampleSeen int
}

var (
	collMu     sync.Mutex
	collectors = map[string]*collector{}
)

func coll(prop, part string) *collector {
	collMu.Lock()
	defer collMu.Unlock()
	k := prop + "." + part
	if c, ok := collectors[k]; ok {
		return c
	}
	c := &collector{Prop: prop, Part: part, hashes: map[uint64]struct{}{}, Classes: map[string]int64{}, Excluded: map[string]int64{}}
	collectors[k] = c
	return c
}

func hash64(parts ...string) uint64 {
	h := fnv.New64a()
	for _, p := range parts {
		h.Write([]byte(p))
		h.Write([]byte{0})
	}
	return h.Sum64()
}

// eval records one oracle evaluation; key identifies the case for distinctness when it is non-trivial.
func (c *collector) eval(nontrivial bool, key uint64, classes ...string) {
	c.mu.Lock()
	c.Evals++
	if nontrivial {
		c.hashes[key] = struct{}{}
	}
	for _, cl := range classes {
		if cl != "" {
			c.Classes[cl]++
		}
	}
	c.mu.Unlock()
}

func (c *collector) class(cl string) {
	c.mu.Lock()
	c.Classes[cl]++
	c.mu.Unlock()
}

func (c *collector) excluded(key string) {
	c.mu.Lock()
	c.Excluded[key]++
	c.mu.Unlock()
}

// sample keeps up to 8 cases written out in full (reservoir-free: first, then every 2^k-th).
func (c *collector) sample(v func() any) {
	c.mu.Lock()
	c.sampleSeen++
	n := c.sampleSeen
	take := len(c.Samples) < 8 && (n&(n-1)) == 0
	c.mu.Unlock()
	if take {
		s := v()
		c.mu.Lock()
		c.Samples = append(c.Samples, s)
		c.mu.Unlock()
	}
}

func (c *collector) knownFinding(line string) {
	c.mu.Lock()
	for _, l := range c.KnownLines {
		if l == line {
			c.mu.Unlock()
			return
		}
	}
	c.KnownLines = append(c.KnownLines, line)
	c.mu.Unlock()
}

func (c *collector) note(s string) {
	c.mu.Lock()
	c.Notes = append(c.Notes, s)
	c.mu.Unlock()
}

func flushAll() {
	if outDir == "" {
		return
	}
	collMu.Lock()
	defer collMu.Unlock()
	for k, c := range collectors {
		base := filepath.Join(outDir, fmt.Sprintf("stats.%s.%d.%d", k, shard, os.Getpid()))
		b, _ := json.Marshal(c)
		os.WriteFile(base+".json", b, 0o644)
		hs := make([]uint64, 0, len(c.hashes))
		for h := range c.hashes {
			hs = append(hs, h)
		}
		sort.Slice(hs, func(i, j int) bool { return hs[i] < hs[j] })
		buf := make([]byte, 8*len(hs))
		for i, h := range hs {
			binary.LittleEndian.PutUint64(buf[8*i:], h)
		}
		os.WriteFile(base+".hashes", buf, 0o644)
	}
}

// ---- violations and replay ------------------------------------------------------------------------------------------

type replayFile struct {
	Property string          `json:"property"`
	Kind     string          `json:"kind"`
	Case     json.RawMessage `json:"case"`
	Detail   string          `json:"detail"`
	Seed     string          `json:"seed,omitempty"`
}

type failer interface {
	Fatalf(format string, args ...any)
	Helper()
}

// violation writes the replay file (last writer wins, so after shrinking it holds the minimal case) and fails.
func violation(t failer, prop, kind string, c any, detail string) {
	t.Helper()
	writeReplay(prop, kind, c, detail)
	if len(detail) > 4000 {
		detail = detail[:4000] + "..."
	}
	t.Fatalf("VIOLATION-CANDIDATE property=%s kind=%s\n%s", prop, kind, detail)
}

func writeReplay(prop, kind string, c any, detail string) {
	if outDir == "" {
		return
	}
	cb, _ := json.Marshal(c)
	rf := replayFile{Property: prop, Kind: kind, Case: cb, Detail: detail, Seed: os.Getenv("VERIF_SEED")}
	b, _ := json.MarshalIndent(rf, "", " ")
	os.WriteFile(filepath.Join(outDir, fmt.Sprintf("replay.%s.%d.json", prop, shard)), b, 0o644)
}

// replayers maps a replay kind to the function that re-executes the saved case and applies the same oracle.
var replayers = map[string]func(raw json.RawMessage) string{}

func registerReplay[C any](kind string, check func(C) string) {
	replayers[kind] = func(raw json.RawMessage) string {
		var c C
		if err := json.Unmarshal(raw, &c); err != nil {
			return "cannot decode case: " + err.Error()
		}
		return check(c)
	}
}

// TestReplay re-executes the case in $VERIF_REPLAY without rapid and without any generator.
func TestReplay(t *testing.T) {
	p := os.Getenv("VERIF_REPLAY")
	if p == "" {
		t.Skip("no replay file")
	}
	b, err := os.ReadFile(p)
	if err != nil {
		t.Fatalf("INFRA cannot read replay file: %v", err)
	}
	var rf replayFile
	if err := json.Unmarshal(b, &rf); err != nil {
		t.Fatalf("INFRA bad replay file: %v", err)
	}
	fn, ok := replayers[rf.Kind]
	if !ok {
		t.Fatalf("INFRA unknown replay kind %q", rf.Kind)
	}
	if msg := fn(rf.Case); msg != "" {
		writeReplay(rf.Property, rf.Kind, rf.Case, msg)
		t.Fatalf("VIOLATION-CANDIDATE property=%s kind=%s (replayed)\n%s", rf.Property, rf.Kind, msg)
	}
	fmt.Printf("replay of %s: property holds on this case\n", p)
}

// TestSavedReplays is the seconds-long regression tier of every property: the minimal failing cases harvested from
// repaired defects and from seeded changes (replays/<ID>/*.json) are re-executed through the same oracles.
func TestSavedReplays(t *testing.T) {
	prop := os.Getenv("VERIF_PROP")
	if prop == "" {
		t.Skip("VERIF_PROP not set")
	}
	replaySaved(t, prop)
}

// replaySaved re-runs every saved replay of one property.
func replaySaved(t *testing.T, prop string) {
	dir := filepath.Join("..", "..", "replays", prop)
	ents, err := os.ReadDir(dir)
	if err != nil {
		return
	}
	c := coll(prop, "saved-replays")
	c.Rule = "saved minimal cases (replays/" + prop + "/*.json: shrunk failures of repaired defects and of seeded changes) re-executed without any generator"
	for _, e := range ents {
		if !strings.HasSuffix(e.Name(), ".json") {
			continue
		}
		b, err := os.ReadFile(filepath.Join(dir, e.Name()))
		if err != nil {
			continue
		}
		var rf replayFile
		if json.Unmarshal(b, &rf) != nil {
			continue
		}
		fn, ok := replayers[rf.Kind]
		if !ok {
			continue
		}
		c.eval(true, hash64(e.Name()), "saved-replay")
		c.sample(func() any { return map[string]any{"replay": e.Name(), "kind": rf.Kind, "case": rf.Case} })
		if msg := fn(rf.Case); msg != "" {
			violation(t, prop, rf.Kind, rf.Case, "saved replay "+e.Name()+" fails again:\n"+msg)
		}
	}
}

// ---- worker pools ---------------------------------------------------------------------------------------------------

var (
	poolMu sync.Mutex
	pools  = map[string]*ops.Pool{}
)

func pool(mode string) *ops.Pool {
	poolMu.Lock()
	defer poolMu.Unlock()
	if p, ok := pools[mode]; ok {
		return p
	}
	p := &ops.Pool{Dir: filepath.Join(scratch, fmt.Sprintf("w-%s.%d", mode, os.Getpid()))}
	switch mode {
	case "chroot":
		p.Mode = "chroot"
	case "race":
		p.Bin = raceBin
		p.Race = true
	case "onecpu":
		// a process confined to one CPU (a one-vCPU container, taskset -c 0): runtime.NumCPU() == 1 as well
		if ts, err := exec.LookPath("taskset"); err == nil {
			p.Prefix = []string{ts, "-c", "0"}
		} else {
			p.Env = []string{"GOMAXPROCS=1"}
		}
	case "single":
		// a process that starts with one P (a one-CPU container): package-level sizing decisions see GOMAXPROCS == 1
		p.Env = []string{"GOMAXPROCS=1"}
	}
	pools[mode] = p
	return p
}

func closePools() {
	poolMu.Lock()
	defer poolMu.Unlock()
	for _, p := range pools {
		p.Close()
	}
}

// ---- rapid helpers --------------------------------------------------------------------------------------------------

// checks returns the rapid case count for this shard given quick/thorough totals per shard.
func rapidChecksOverride() bool { return false }

var _ = rapid.Check

func infra(t failer, msg string) {
	t.Helper()
	t.Fatalf("INFRA %s", msg)
}

var (
	mountOnce sync.Once
	mountOk   bool
)

// mountOK: this process may mount a tmpfs (ops.FSSpec.InodeLimit is usable).
func mountOK() bool {
	mountOnce.Do(func() { mountOk = ops.MountWorks(scratch) })
	return mountOk
}

var (
	ptyOnce sync.Once
	ptyOk   bool
)

// ptyOK: this process can open a pseudo terminal (ops.Faults.IOKind 10, C16's stdout "tty").
func ptyOK() bool {
	ptyOnce.Do(func() {
		if p, err := ops.OpenPty(); err == nil {
			p.Finish()
			ptyOk = true
		}
	})
	return ptyOk
}
