package props

import (
	"fmt"
	"testing"

	"verif/harness/model"
	"verif/harness/ops"

	"pgregory.net/rapid"
)

// C14 — reader and writer failures are reported, never swallowed (fault enumeration: every byte offset of the input,
// every write index of the output).

type c14Case struct {
	Forest  model.Forest   `json:"forest"`
	Sp      model.Spelling `json:"spelling"`
	Op      string         `json:"op"`    // output walk mkdir verify
	Mode    string         `json:"mode"`  // text noiter json yaml toml dryrun (output); "" otherwise
	Entry   string         `json:"entry"` // md | root
	Branch  *model.Branch  `json:"branch,omitempty"`
	Massive bool           `json:"massive,omitempty"`
	// the fault; exactly one of reader/writer is set when replaying a single fault point
	Reader *c14Reader `json:"reader,omitempty"`
	Writer *c14Writer `json:"writer,omitempty"`
}

type c14Reader struct {
	Kind  int `json:"kind,omitempty"` // which well-known error the injected error wraps (ops.FaultErr)
	IO    int `json:"io,omitempty"`   // ops IOKind: 1 the reader also implements io.WriterTo, 2 io.Closer, 5 it sits behind a *bufio.Reader
	At    int `json:"at"`
	Mode  int `json:"mode"` // 0: (0,E) after At bytes, sticky; 1: (n,E) with the last chunk; 2: (0,E) once, then the reader works again
	Chunk int `json:"chunk,omitempty"`
}

type c14Writer struct {
	Kind  int  `json:"kind,omitempty"`
	IO    int  `json:"io,omitempty"` // 1: the writer also implements io.StringWriter
	At    int  `json:"at"`
	Short int  `json:"short,omitempty"`
	Once  bool `json:"once,omitempty"`
}

func init() { registerReplay("c14", c14CheckOne) }

func c14Base(c c14Case) ops.Case {
	cs := ops.NewCase(c.Op, c.Entry)
	if c.Entry == "md" {
		cs.Doc = []byte(model.Spell(c.Forest, c.Sp))
	} else {
		cs.Root = &c.Forest[0].Name
		cs.Prog = preorderProgram(model.Merge(c.Forest)[0])
	}
	cs.Opts.Branch = c.Branch
	cs.Opts.Massive = c.Massive
	switch c.Mode {
	case "noiter":
		cs.Opts.NoIter = true
	case "json", "yaml", "toml":
		cs.Opts.Encode = c.Mode
	case "dryrun":
		cs.Opts.DryRun = true
	}
	switch c.Op {
	case "mkdir":
		if c.Entry == "root" {
			cs.Opts.DryRun = true // MkdirFromRoot + dry run writes its report to color.Output
		}
		cs.FS = &ops.FSSpec{}
	case "verify":
		cs.FS = &ops.FSSpec{Pre: materialize(c.Forest, nil, nil)}
	}
	return cs
}

func c14Exec(c c14Case, cs *ops.Case) *ops.Result {
	if c.Massive {
		return pool("plain").Run(cs)
	}
	return ops.DefaultEnv.Run(cs)
}

// c14CheckOne evaluates one fault point (or the fault-free run when none is set).
func c14CheckOne(c c14Case) string {
	cs := c14Base(c)
	head := fmt.Sprintf("op=%s mode=%s entry=%s massive=%v doc=%q ", c.Op, c.Mode, c.Entry, c.Massive, cs.Doc)
	if c.Reader != nil {
		cs.Faults.ReaderFailAt = c.Reader.At
		cs.Faults.ReaderMode = c.Reader.Mode
		cs.Faults.ErrKind = c.Reader.Kind
		cs.Faults.IOKind = c.Reader.IO
		cs.Sched.ReadChunk = c.Reader.Chunk
		res := c14Exec(c, &cs)
		if res.Infra != "" {
			return ""
		}
		if cr := res.Crashed(); cr != "" {
			return head + fmt.Sprintf("reader fails after %d bytes: %s", c.Reader.At, cr)
		}
		if !res.Err.IsReader {
			return head + fmt.Sprintf("the reader failed after delivering %d of %d bytes (mode %d) but the call returned %q, which is not the reader's error", c.Reader.At, len(cs.Doc), c.Reader.Mode, errOrNil(res))
		}
		return ""
	}
	if c.Writer != nil {
		cs.Faults.WriterFailAt = c.Writer.At
		cs.Faults.WriterShort = c.Writer.Short
		cs.Faults.WriterOnce = c.Writer.Once
		cs.Faults.ErrKind = c.Writer.Kind
		cs.Faults.IOKind = c.Writer.IO
		res := c14Exec(c, &cs)
		if res.Infra != "" {
			return ""
		}
		if cr := res.Crashed(); cr != "" {
			return head + fmt.Sprintf("writer fails at write %d: %s", c.Writer.At, cr)
		}
		if res.WriteFailed && res.Err.Nil {
			return head + fmt.Sprintf("write number %d failed (the writer accepted %d of %d bytes offered) but the call returned nil", c.Writer.At, len(res.Out)+len(res.Color), res.Offered)
		}
		return ""
	}
	res := c14Exec(c, &cs)
	if cr := res.Crashed(); cr != "" {
		return head + cr
	}
	if !res.Err.Nil {
		return head + "fault-free run failed: " + res.Err.Text
	}
	return ""
}

// c14IOKind: the write indexes are those of the plain writer; a writer that also offers WriteString may be written to in
// other portions, so its fault indexes run over a wider range (handled by the caller through extra indexes)
func c14IOKind(j, v, w int) int { return (j + v + 1) % 2 }

func errOrNil(r *ops.Result) string {
	if r.Err.Nil {
		return "<nil>"
	}
	return r.Err.Text
}

// c14All enumerates every fault point of the case; returns the number of evaluations.
func c14All(t failer, col *collector, c c14Case, stride int) {
	cs := c14Base(c)
	res := c14Exec(c, &cs)
	if res.Infra != "" {
		return
	}
	if msg := c14CheckOne(c); msg != "" {
		violation(t, "C14", "c14", c, msg)
	}
	cls := []string{"op:" + c.Op, "mode:" + c.Mode, "entry:" + c.Entry}
	if c.Massive {
		cls = append(cls, "massive")
	} else {
		cls = append(cls, "simple")
	}
	key := hash64(string(cs.Doc), fmt.Sprint(c.Forest, c.Op, c.Mode, c.Entry, c.Massive, c.Branch))
	if c.Entry == "md" {
		n := len(cs.Doc)
		for k := 0; k <= n; k += stride {
			for mode := 0; mode < 3; mode++ {
				if mode == 1 && k == 0 {
					continue
				}
				cc := c
				mode := mode
				if mode == 1 && k%2 == 0 {
					mode = 3 // the error arrives with the last bytes, once; the next Read carries on
				}
				cc.Reader = &c14Reader{At: k, Mode: mode, Chunk: []int{0, 1, 7}[(k+mode)%3], Kind: (k + 3*mode) % 6, IO: []int{0, 1, 5, 0, 2}[(k/2)%5]}
				pos := "reader@inside"
				if k == 0 {
					pos = "reader@0"
				} else if k == n {
					pos = "reader@eof"
				}
				col.eval(k > 0 && k < n, hash64(fmt.Sprint(key, "r", k, mode)), append(cls, pos)...)
				if msg := c14CheckOne(cc); msg != "" {
					violation(t, "C14", "c14", cc, msg)
				}
			}
		}
	}
	if c.Op == "output" || (c.Op == "mkdir" && c.Entry == "root") {
		w := res.Writes
		if w == 0 && len(res.Color) > 0 {
			w = 1
		}
		wstride := 1
		if w > 60 {
			wstride = w / 40 // big documents: the first and last ten write indexes and every wstride-th in between
		}
		for j := 0; j < w; j++ {
			if wstride > 1 && j >= 10 && j < w-10 && j%wstride != 0 {
				continue
			}
			for v := 0; v < 3; v++ {
				cc := c
				cc.Writer = &c14Writer{At: j, Kind: (j + v) % 9, IO: c14IOKind(j, v, w)} // kinds 6..8: bare io.EOF, io.ErrUnexpectedEOF, io.ErrShortWrite
				switch v {
				case 1:
					cc.Writer.Short = 1
					if j%2 == 1 {
						cc.Writer.Short = -1 // (len(p), err): the bytes were taken, the write failed all the same
					}
				case 2:
					cc.Writer.Once = true
				}
				pos := "writer@inside"
				if j == 0 {
					pos = "writer@first"
				} else if j == w-1 {
					pos = "writer@last"
				}
				col.eval(j > 0 && j < w-1, hash64(fmt.Sprint(key, "w", j, v)), append(cls, pos, fmt.Sprintf("writer-variant:%d", v))...)
				if msg := c14CheckOne(cc); msg != "" {
					violation(t, "C14", "c14", cc, msg)
				}
			}
		}
	}
	col.sample(func() any {
		return map[string]any{"doc": string(cs.Doc), "op": c.Op, "mode": c.Mode, "entry": c.Entry, "massive": c.Massive, "writes": res.Writes, "bytes": len(cs.Doc)}
	})
}

var c14Modes = []string{"text", "noiter", "json", "yaml", "toml", "dryrun"}

func TestC14Enumerate(t *testing.T) {
	col := coll("C14", "enumerate")
	maxN := pick(4, 5)
	col.Rule = fmt.Sprintf("all forests <=%d nodes over {a,b} x rotating (spelling, output mode, entry, simple|massive); for each: reader failure after EVERY byte offset (2 failure shapes, 3 chunkings) and writer failure at EVERY write index (plain, short write, one-off)", maxN)
	i, rot := 0, 0
	model.EnumForests(maxN, []string{"a", "b"}, func(f model.Forest) {
		i++
		if i%nshards != shard {
			return
		}
		for rep := 0; rep < 3; rep++ {
			rot++
			sp := model.Panel[rot%len(model.Panel)]
			if sp.Heading && !f.HeadingOK() {
				sp = model.Plain2
			}
			c := c14Case{Forest: f, Sp: sp, Op: "output", Mode: c14Modes[rot%len(c14Modes)], Entry: "md", Branch: branchPanel[rot%len(branchPanel)]}
			if c.Mode == "toml" && len(f) != 1 {
				c.Mode = "text"
			}
			if len(f) == 1 && rot%4 == 0 {
				c.Entry = "root"
				if c.Mode == "noiter" {
					c.Mode = "text"
				}
				if rot%8 == 0 {
					c.Op, c.Mode = "mkdir", "dryrun" // MkdirFromRoot + dry run writes the report to color.Output
				}
			}
			if rot%5 == 0 {
				c.Massive = true
			}
			if rot%11 == 0 && c.Entry == "md" && !hasDupRoots(f) {
				c.Op, c.Mode = []string{"walk", "mkdir", "verify"}[rot%3], ""
			}
			c14All(t, col, c, 1)
		}
	})
	col.Exhaustive = true
}

func TestC14Random(t *testing.T) {
	col := coll("C14", "random")
	col.Rule = "rapid: random forest/spelling/mode/entry/{simple,massive}; for each drawn document ALL reader offsets (stride 1 up to 400 bytes, else stride len/400) and ALL write indexes are enumerated; non-trivial = fault strictly inside the input/output"
	rapid.Check(t, func(rt *rapid.T) {
		op := rapid.SampledFrom([]string{"output", "output", "output", "output", "walk", "mkdir", "verify"}).Draw(rt, "op")
		entry := "md"
		names := genNameMix(poolTiny, poolSyntax, poolUnicode, nil)
		if op != "output" {
			names = sampled(validElemPool())
		}
		mode := ""
		if op == "output" {
			mode = rapid.SampledFrom(c14Modes).Draw(rt, "mode")
			if rapid.IntRange(0, 3).Draw(rt, "root") == 0 && mode != "noiter" {
				entry = "root"
			}
			if mode == "dryrun" {
				names = sampled(validElemPool())
			}
		}
		var f model.Forest
		if rapid.IntRange(0, 24).Draw(rt, "wide") == 0 && entry == "md" && mode != "toml" && op == "output" {
			f = genWideForest(sampled(poolTiny)).Draw(rt, "wideForest") // roots whose rendering exceeds 4 KiB / 64 KiB
		} else {
			f = genForest(forestParams{maxNodes: 12, maxDepth: 6, names: names, oneRoot: entry == "root" || mode == "toml"}).Draw(rt, "forest")
		}
		if op == "output" && mode != "dryrun" && rapid.IntRange(0, 11).Draw(rt, "long") == 0 {
			withLongName(rt, f) // a row of 4 000 .. 60 000 bytes: printers may hand such rows to the writer in pieces
		}
		if (op == "verify" || op == "mkdir") && hasDupRoots(f) {
			uniqRoots(f)
		}
		c := c14Case{Forest: f, Sp: genSpelling(f.HeadingOK()).Draw(rt, "sp"), Op: op, Mode: mode, Entry: entry, Massive: rapid.IntRange(0, 2).Draw(rt, "massive") == 0}
		if mode == "text" || mode == "noiter" {
			c.Branch = genBranch().Draw(rt, "branch")
		}
		if entry == "root" && mode == "dryrun" {
			c.Op = "mkdir"
		}
		stride := 1
		if n := len(model.Spell(f, c.Sp)); n > 400 {
			stride = n / 400
			if n > 8000 {
				stride = n / 60
			}
		}
		c14All(rt, col, c, stride)
	})
}


// Readers that fail without a fault injector: an empty regular file opened write-only (nothing remains to be read, but Read
// fails with EBADF). The call must return that error.
func TestC14OddReaders(t *testing.T) {
	col := coll("C14", "odd-readers")
	col.Rule = "an empty regular file opened write-only as the reader (Read fails with EBADF) x operation x output mode x {simple, massive} x {From-Markdown functions, deprecated aliases}; the call must return an error that errors.Is EBADF; non-trivial = always"
	n := 0
	for _, op := range []string{"output", "walk", "mkdir", "verify"} {
		modes := []string{"text"}
		if op == "output" {
			modes = []string{"text", "noiter", "json", "yaml", "toml", "dryrun"}
		}
		for _, mode := range modes {
			for _, massive := range []bool{false, true} {
				for _, entry := range []string{"md", "mdalias"} {
					n++
					if n%nshards != shard {
						continue
					}
					c := c14Case{Forest: model.Forest{{Name: "a"}}, Sp: model.Plain2, Op: op, Mode: mode, Entry: entry, Massive: massive}
					c.Reader = &c14Reader{At: 0, IO: 6}
					col.eval(true, hash64(fmt.Sprint(op, mode, massive, entry)), "op:"+op, "mode:"+mode, fmt.Sprintf("massive:%v", massive))
					if msg := c14CheckOne(c); msg != "" {
						violation(t, "C14", "c14", c, msg)
					}
				}
			}
		}
	}
	col.Exhaustive = true
}
