package props

import (
	"bytes"
	"context"
	"fmt"
	"io"
	"os"
	"os/exec"
	"path/filepath"
	"sort"
	"strings"
	"sync"
	"syscall"
	"testing"
	"time"

	"verif/harness/model"
	"verif/harness/ops"

	"pgregory.net/rapid"
)

// C16 — the CLI is a faithful front end with a truthful exit status (differential against the library, child processes).

type c16Case struct {
	Sub    string        `json:"sub"` // output mkdir verify template version <other>
	Args   []string      `json:"args"`
	Doc    []byte        `json:"doc"`
	Input  string        `json:"input"`  // stdin | file | dash | missing | dir
	Stdout string        `json:"stdout"` // pipe | devfull | closed
	Pre    []ops.FSEntry `json:"pre,omitempty"`
	// what the command line means, filled in by the generator (the oracle's reading of the documented flags)
	Usage       string   `json:"usage,omitempty"` // non-empty: the command line is invalid for this reason
	Format      string   `json:"format,omitempty"`
	Massive     bool     `json:"massive,omitempty"`
	DryRun      bool     `json:"dryRun,omitempty"`
	Exts        []string `json:"exts,omitempty"`
	Target      string   `json:"target,omitempty"`
	Strict      bool     `json:"strict,omitempty"`
	TinyTimeout bool     `json:"tinyTimeout,omitempty"` // --massive-timeout of microseconds: the run may legitimately time out
	Inodes      int      `json:"inodes,omitempty"`      // mkdir: the working directory is a file system with room for Inodes-1 entries
	Expired     bool     `json:"expired,omitempty"`     // --massive-timeout 1ns: the deadline has passed before the library is called (the command makes the context first, then opens and reads the input)
}

func init() { registerReplay("c16", c16Check) }

var cliSeq int

type cliResult struct {
	stdout, stderr []byte
	exit           int
	signaled       bool
	sig            syscall.Signal
	after          map[string]string
	before         map[string]string
	infra          string
}

func runCLI(c c16Case) cliResult {
	bin := os.Getenv("VERIF_CLI_BIN")
	if bin == "" {
		return cliResult{infra: "no CLI binary"}
	}
	cliSeq++
	base := filepath.Join(scratch, fmt.Sprintf("cli.%d.%d", os.Getpid(), cliSeq))
	os.RemoveAll(base)
	defer ops.ReleaseJail(base)
	if err := ops.MakeJail(base, &ops.FSSpec{Pre: c.Pre, InodeLimit: c.Inodes}); err != nil {
		return cliResult{infra: err.Error()}
	}
	target := filepath.Join(base, ops.JailTarget)
	docPath := filepath.Join(base, "work", "doc.md")
	os.WriteFile(docPath, c.Doc, 0o644)
	var args []string
	if c.Sub != "" {
		args = append(args, c.Sub)
	}
	args = append(args, c.Args...)
	switch c.Input {
	case "file":
		args = append(args, "--file", docPath)
	case "dash":
		args = append(args, "--file", "-")
	case "missing":
		args = append(args, "--file", filepath.Join(base, "work", "no-such.md"))
	case "dir":
		args = append(args, "-f", filepath.Join(base, "work"))
	case "devstdin":
		args = append(args, "--file", "/dev/stdin")
	case "fifo":
		// a named pipe: readable, but its size is 0 and it cannot be re-read
		fifo := filepath.Join(base, "work", "doc.fifo")
		if err := syscall.Mkfifo(fifo, 0o644); err != nil {
			return cliResult{infra: "mkfifo: " + err.Error()}
		}
		args = append(args, "--file", fifo)
		go func(doc []byte) {
			f, err := os.OpenFile(fifo, os.O_WRONLY, 0)
			if err != nil {
				return
			}
			f.Write(doc)
			f.Close()
		}(append([]byte{}, c.Doc...))
		defer func() {
			// release the writer goroutine if the CLI never opened the pipe
			if f, err := os.OpenFile(fifo, os.O_RDONLY|syscall.O_NONBLOCK, 0); err == nil {
				f.Close()
			}
		}()
	}
	ctx, cancel := context.WithTimeout(context.Background(), 30*time.Second)
	defer cancel()
	var cmd *exec.Cmd
	switch c.Stdout {
	case "closed":
		q := []string{}
		for _, a := range append([]string{bin}, args...) {
			q = append(q, "'"+strings.ReplaceAll(a, "'", `'\''`)+"'")
		}
		cmd = exec.CommandContext(ctx, "/bin/sh", "-c", "exec "+strings.Join(q, " ")+" >&-")
	default:
		cmd = exec.CommandContext(ctx, bin, args...)
	}
	cmd.Dir = target
	cmd.Stdin = bytes.NewReader(c.Doc)
	if c.Input == "devnull" {
		cmd.Stdin = nil // the child reads /dev/null, as under cron, nohup or a service manager
	}
	var so, se bytes.Buffer
	var tty *ops.PtyWriter
	cmd.Stderr = &se
	switch c.Stdout {
	case "devfull":
		f, err := os.OpenFile("/dev/full", os.O_WRONLY, 0)
		if err != nil {
			return cliResult{infra: err.Error()}
		}
		defer f.Close()
		cmd.Stdout = f
	case "closed":
	case "tty":
		// standard output is a terminal (what an interactive user has)
		pw, err := ops.OpenPty()
		if err != nil {
			return cliResult{infra: "pty: " + err.Error()}
		}
		tty = pw
		cmd.Stdout = pw.File()
	case "brokenpipe":
		// a pipe whose reader has gone away before the first write
		pr, pw, err := os.Pipe()
		if err != nil {
			return cliResult{infra: err.Error()}
		}
		pr.Close()
		defer pw.Close()
		cmd.Stdout = pw
	default:
		cmd.Stdout = &so
	}
	cmd.Env = append(os.Environ(), "NO_COLOR=1")
	if c.Stdout == "tty" {
		cmd.Env = append(os.Environ(), "TERM=xterm-256color") // colours allowed: the terminal decides
	}
	before := ops.Snap(base)
	err := cmd.Run()
	if tty != nil {
		so.Write(tty.Finish())
	}
	res := cliResult{stdout: so.Bytes(), stderr: se.Bytes(), before: before}
	if ctx.Err() != nil {
		res.infra = "CLI did not finish within 30s"
		return res
	}
	if err != nil {
		if ee, ok := err.(*exec.ExitError); ok {
			res.exit = ee.ExitCode()
			if res.exit < 0 {
				res.signaled = true
				if ws, ok := ee.Sys().(syscall.WaitStatus); ok && ws.Signaled() {
					res.sig = ws.Signal()
				}
			}
		} else {
			res.infra = err.Error()
		}
	}
	res.after = ops.Snap(base)
	return res
}

func c16Check(c c16Case) string {
	cli := runCLI(c)
	head := fmt.Sprintf("gtree %s %q input=%s stdout=%s doc=%q\n", c.Sub, c.Args, c.Input, c.Stdout, truncate(string(c.Doc), 300))
	if cli.infra != "" {
		ops.InfraCount.Add(1)
		ops.LastInfra.Store(cli.infra)
		return ""
	}
	if c.Stdout == "brokenpipe" && cli.signaled && cli.sig == syscall.SIGPIPE {
		// the conventional end of a process whose standard output has no reader any more: a failure status (128+SIGPIPE for a shell)
		return ""
	}
	if cli.signaled || bytes.Contains(cli.stderr, []byte("goroutine 1 [")) || bytes.Contains(cli.stderr, []byte("panic:")) {
		return fmt.Sprintf("%sthe process crashed (exit %d):\n%s", head, cli.exit, truncate(string(cli.stderr), 1500))
	}
	fail := func(why string) string {
		if cli.exit == 0 {
			return fmt.Sprintf("%s%s, but the exit status is 0 (stderr: %q)", head, why, truncate(string(cli.stderr), 300))
		}
		if len(bytes.TrimSpace(cli.stderr)) == 0 {
			return fmt.Sprintf("%s%s: exit status %d but nothing on stderr", head, why, cli.exit)
		}
		return ""
	}
	if c.Usage != "" {
		return fail("usage error (" + c.Usage + ")")
	}
	if c.Sub == "" {
		if cli.exit != 0 {
			return fmt.Sprintf("%splain 'gtree' (help) exits with status %d", head, cli.exit)
		}
		return ""
	}
	if c.Sub == "template" || c.Sub == "t" || c.Sub == "tmpl" || c.Sub == "version" || c.Sub == "v" {
		if c.Stdout == "devfull" {
			if c.Sub != "version" && c.Sub != "v" {
				return fail("stdout does not accept the output")
			}
			return ""
		}
		if cli.exit != 0 {
			return fmt.Sprintf("%sexit status %d for a valid invocation (stderr %q)", head, cli.exit, cli.stderr)
		}
		return ""
	}
	if c.Input == "missing" || c.Input == "dir" && false {
		return fail("the input file cannot be opened")
	}
	if c.Input == "dir" {
		return fail("the input path is a directory")
	}
	// the library on the same input and an identical jail
	cs := ops.NewCase("output", "md")
	cs.Doc = c.Doc
	cs.FS = &ops.FSSpec{Pre: c.Pre, InodeLimit: c.Inodes}
	cs.Opts.TargetOpt = "raw"
	cs.Opts.TargetRaw = c.Target
	switch c.Sub {
	case "output", "o", "out":
		cs.Opts.Encode = c.Format
		cs.Opts.Massive = c.Massive
		cs.Opts.TargetOpt = "default"
	case "mkdir", "m":
		cs.Opts.Exts = c.Exts
		cs.Opts.HasExts = true
		cs.Opts.PassEmptyTarget = true
		if c.DryRun {
			cs.Opts.DryRun = true
		} else {
			cs.Op = "mkdir"
		}
	case "verify", "vf":
		cs.Op = "verify"
		cs.Opts.Strict = c.Strict
		cs.Opts.PassEmptyTarget = true
	}
	if c.Expired {
		// the corresponding library option is WithMassive(a context whose deadline has passed)
		cs.Cancel = ops.Cancel{Kind: "deadline"}
	}
	lib := ops.DefaultEnv.Run(&cs)
	if lib.Infra != "" {
		return ""
	}
	if c.TinyTimeout && c.Usage == "" && cli.exit != 0 {
		// the deadline struck: a failure with a diagnostic is the truthful outcome
		if len(bytes.TrimSpace(cli.stderr)) == 0 {
			return fmt.Sprintf("%sexit status %d after a timeout but nothing on stderr", head, cli.exit)
		}
		return ""
	}
	if lib.Crashed() != "" {
		return "" // C12's subject
	}
	if !lib.Err.Nil {
		if msg := fail(fmt.Sprintf("the library rejects this input (%s)", truncate(lib.Err.Text, 120))); msg != "" {
			return msg
		}
		if c.Stdout == "pipe" && !c.Massive && !bytes.Contains(cli.stderr, []byte(strings.TrimSpace(firstLine(lib.Err.Text)))) {
			return fmt.Sprintf("%sstderr %q does not contain the library's diagnostic %q", head, truncate(string(cli.stderr), 300), firstLine(lib.Err.Text))
		}
	} else if c.Stdout == "brokenpipe" && len(lib.Out)+len(lib.Color) > 0 {
		// nothing of the output can have been delivered: success is not a truthful status (how the failure is reported — a
		// diagnostic and an exit status, or death by SIGPIPE, handled above — is the program's choice)
		if cli.exit == 0 {
			return fmt.Sprintf("%sstdout is a pipe without a reader and the library has %d bytes to write, but the exit status is 0", head, len(lib.Out)+len(lib.Color))
		}
	} else if c.Stdout == "devfull" && len(lib.Out) > 0 {
		// (a closed stdout is different: the Go runtime re-opens closed standard descriptors on /dev/null at start-up, so every
		// write is accepted and exit status 0 is truthful)
		if msg := fail("stdout does not accept the output"); msg != "" {
			return msg
		}
	} else if cli.exit != 0 {
		return fmt.Sprintf("%sthe operation succeeds in the library but the exit status is %d (stderr %q)", head, cli.exit, truncate(string(cli.stderr), 300))
	}
	if c.Stdout == "tty" && lib.Err.Nil && !bytes.Contains(c.Doc, []byte("\x1b")) {
		// on a terminal the text may carry colour sequences (dry run); without them it is what the library writes
		got := sgrAny.ReplaceAll(cli.stdout, nil)
		want := append(append([]byte{}, lib.Out...), lib.Color...)
		if c.Massive {
			a, b := strings.SplitAfter(string(got), "\n"), strings.SplitAfter(string(want), "\n")
			sort.Strings(a)
			sort.Strings(b)
			if strings.Join(a, "") != strings.Join(b, "") {
				return fmt.Sprintf("%son a terminal, stdout (colour sequences removed) differs from the library's output (as multisets of lines)\ncli:\n%s\nlibrary:\n%s", head, truncate(string(got), 800), truncate(string(want), 800))
			}
		} else if string(got) != string(want) {
			return fmt.Sprintf("%son a terminal, stdout (colour sequences removed) differs from what the library writes: %s", head, firstDiff(string(got), string(want)))
		}
	}
	if c.Stdout == "pipe" && lib.Err.Nil {
		if c.Massive {
			a, b := strings.SplitAfter(string(cli.stdout), "\n"), strings.SplitAfter(string(lib.Out), "\n")
			sort.Strings(a)
			sort.Strings(b)
			if strings.Join(a, "") != strings.Join(b, "") {
				return fmt.Sprintf("%sstdout differs from the library's output (as multisets of lines)\ncli:\n%s\nlibrary:\n%s", head, truncate(string(cli.stdout), 800), truncate(string(lib.Out), 800))
			}
		} else if string(cli.stdout) != string(lib.Out) {
			return fmt.Sprintf("%sstdout differs from what the library writes: %s", head, firstDiff(string(cli.stdout), string(lib.Out)))
		}
	}
	// filesystem effect (none for --dry-run); the jail of the CLI also holds doc.md, which is ignored
	strip := func(m map[string]string) string {
		m2 := stripMtime(m)
		delete(m2, "work/doc.md")
		delete(m2, "work/doc.fifo")
		return snapString(m2)
	}
	if a, b := strip(cli.after), strip(lib.After); a != b && (lib.Err.Nil || !c.Massive) {
		return fmt.Sprintf("%sfilesystem effect differs from the library's:\n--- cli\n%s--- library\n%s", head, a, b)
	}
	if c.DryRun {
		if cr, rm, ch := ops.Diff(cli.before, cli.after); len(cr)+len(rm)+len(ch) != 0 {
			return fmt.Sprintf("%smkdir --dry-run changed the filesystem: created %v removed %v changed %v", head, cr, rm, ch)
		}
	}
	return ""
}

func firstLine(s string) string {
	if i := strings.IndexByte(s, '\n'); i >= 0 {
		return s[:i]
	}
	return s
}

func c16Gen() *rapid.Generator[c16Case] {
	return rapid.Custom(func(t *rapid.T) c16Case {
		c := c16Case{Stdout: "pipe", Input: rapid.SampledFrom([]string{"stdin", "stdin", "file", "file", "dash", "missing", "dir", "devstdin", "fifo", "devnull"}).Draw(t, "input")}
		c.Sub = rapid.SampledFrom([]string{"output", "output", "o", "out", "mkdir", "mkdir", "m", "verify", "verify", "vf", "template", "t", "tmpl", "version", "v", "frobnicate", "outputs", ""}).Draw(t, "sub")
		names := sampled(validElemPool())
		hostile := rapid.IntRange(0, 5).Draw(t, "hostile") == 0
		if hostile {
			names = rapid.OneOf(sampled(validElemPool()), sampled(poolHostilePathItems()))
		}
		f := genForest(forestParams{maxNodes: 10, maxDepth: 5, names: names}).Draw(t, "forest")
		if hasDupRoots(f) && !hostile {
			uniqRoots(f)
		}
		sp := genSpelling(f.HeadingOK()).Draw(t, "sp")
		lines := model.SpellLines(f, sp)
		if rapid.IntRange(0, 4).Draw(t, "malformed") == 0 {
			inj := model.Injection{Class: rapid.SampledFrom(model.InjClasses).Draw(t, "class"), Line: rapid.IntRange(0, f.Count()-1).Draw(t, "line"), Variant: rapid.IntRange(0, 3).Draw(t, "variant")}
			if nl, _, ok := model.Inject(lines, sp, inj); ok {
				lines = nl
			}
		}
		c.Doc = []byte(model.Join(lines))
		if rapid.IntRange(0, 15).Draw(t, "emptyDoc") == 0 {
			c.Doc = []byte(rapid.SampledFrom([]string{"", "\n", "  \n"}).Draw(t, "blank"))
		}
		if rapid.IntRange(0, 19).Draw(t, "bom") == 0 {
			c.Doc = append([]byte("\xef\xbb\xbf"), c.Doc...) // a byte order mark: part of the first row for the library, whatever the input route
		}
		if c.Input == "devnull" {
			c.Doc = nil // nothing can be read from /dev/null: the empty document
		}
		switch c.Sub {
		case "output", "o", "out":
			switch rapid.IntRange(0, 5).Draw(t, "format") {
			case 0:
				c.Format = "json"
			case 1:
				c.Format = "yaml"
			case 2:
				c.Format = "toml"
			case 3:
				c.Args = append(c.Args, "--format", "xml")
				c.Usage = "unknown --format value"
			}
			if c.Format != "" {
				c.Args = append(c.Args, "--format", c.Format)
			}
			switch rapid.IntRange(0, 7).Draw(t, "massive") {
			case 0, 1:
				c.Args = append(c.Args, rapid.SampledFrom([]string{"--massive", "-m", "--massive=true"}).Draw(t, "mflag"))
				c.Massive = true
			case 2:
				c.Args = append(c.Args, rapid.SampledFrom([]string{"--massive=false", "-m=false"}).Draw(t, "mflag"))
			}
			switch rapid.IntRange(0, 7).Draw(t, "timeout") {
			case 0:
				c.Args = append(c.Args, "--massive-timeout", "1m")
				c.Massive = true
			case 1:
				c.Args = append(c.Args, "--massive-timeout", rapid.SampledFrom([]string{"0", "-1s", "0s"}).Draw(t, "badTimeout"))
				c.Usage = "non-positive --massive-timeout"
			case 2:
				d := rapid.SampledFrom([]string{"1ns", "1ns", "1us", "50us"}).Draw(t, "tinyTimeout")
				c.Args = append(c.Args, rapid.SampledFrom([]string{"--massive-timeout", "--mt"}).Draw(t, "mtflag"), d)
				c.Massive = true
				c.TinyTimeout = d != "1ns"
				c.Expired = d == "1ns"
			}
			c.Stdout = rapid.SampledFrom([]string{"pipe", "pipe", "pipe", "devfull", "closed", "brokenpipe", "tty"}).Draw(t, "stdout")
		case "mkdir", "m":
			if rapid.Bool().Draw(t, "dry") || hostile {
				c.Args = append(c.Args, rapid.SampledFrom([]string{"--dry-run", "-d", "--dry-run=true", "-d=true"}).Draw(t, "dflag"))
				c.DryRun = true
				c.Stdout = rapid.SampledFrom([]string{"pipe", "pipe", "devfull", "brokenpipe", "tty"}).Draw(t, "stdout")
			} else if rapid.IntRange(0, 3).Draw(t, "explicitFalse") == 0 {
				c.Args = append(c.Args, rapid.SampledFrom([]string{"--dry-run=false", "-d=false"}).Draw(t, "dflag"))
			}
			// the flag parser (urfave/cli StringSliceFlag) splits values at commas and trims blanks, and an empty value is
			// dropped; such extensions cannot be expressed on the command line
			for _, e := range genExts(f.Names()).Draw(t, "exts") {
				if e != "" && e == strings.TrimSpace(e) && !strings.Contains(e, ",") && !strings.HasPrefix(e, "-") {
					c.Exts = append(c.Exts, e)
				}
			}
			for _, e := range c.Exts {
				c.Args = append(c.Args, "-e", e)
			}
			if rapid.IntRange(0, 2).Draw(t, "td") == 0 {
				c.Target = rapid.SampledFrom([]string{"sub", "./sub/deeper", ".", "~", "~/out", "~x"}).Draw(t, "target")
				c.Args = append(c.Args, "--target-dir", c.Target)
			}
			if rapid.IntRange(0, 4).Draw(t, "preroot") == 0 && c.Target == "" {
				c.Pre = []ops.FSEntry{{Path: f[0].Name, Kind: "d"}}
			} else if !c.DryRun && !hostile && mountOK() && rapid.IntRange(0, 3).Draw(t, "fsFull") == 0 {
				// the file system runs full at some creation: a mkdir failure, to be reported by the exit status
				c.Inodes = 1 + rapid.IntRange(0, f.Count()+1).Draw(t, "room")
			}
		case "verify", "vf":
			switch rapid.IntRange(0, 4).Draw(t, "strict") {
			case 0, 1:
				c.Args = append(c.Args, rapid.SampledFrom([]string{"--strict", "--strict=true"}).Draw(t, "sflag"))
				c.Strict = true
			case 2:
				c.Args = append(c.Args, "--strict=false")
			}
			drop := map[int]bool{}
			for _, d := range rapid.SliceOfN(rapid.IntRange(0, f.Count()-1), 0, 2).Draw(t, "drop") {
				drop[d] = true
			}
			if f.AllNames(model.ValidElem) {
				c.Pre = materialize(f, nil, drop)
				if rapid.Bool().Draw(t, "extra") {
					c.Pre = append(c.Pre, ops.FSEntry{Path: f[0].Name + "/~x", Kind: "d"})
				}
			}
			if rapid.IntRange(0, 2).Draw(t, "td") == 0 {
				c.Target = rapid.SampledFrom([]string{"sub", "./sub/deeper", "no-such-dir", "~/out", "~"}).Draw(t, "target")
				c.Args = append(c.Args, "--target-dir", c.Target)
				if c.Target != "no-such-dir" {
					for i := range c.Pre {
						c.Pre[i].Path = strings.TrimPrefix(c.Target, "./") + "/" + c.Pre[i].Path
					}
				}
			}
		case "template", "t", "tmpl":
			c.Stdout = rapid.SampledFrom([]string{"pipe", "pipe", "devfull", "closed"}).Draw(t, "stdout")
			if rapid.IntRange(0, 3).Draw(t, "desc") == 0 {
				c.Args = append(c.Args, "--description")
			}
			c.Input = "stdin"
		case "version", "v":
			c.Input = "stdin"
		case "":
			c.Input = "stdin" // no subcommand: the help text, exit 0
		default:
			c.Usage = "unknown command"
			c.Input = "stdin"
		}
		junk := rapid.IntRange(0, 9).Draw(t, "junk")
		if c.Sub == "" {
			junk = 9
		}
		switch junk {
		case 0:
			c.Args = append(c.Args, rapid.SampledFrom([]string{"stray-argument", "", " ", "-", "0"}).Draw(t, "stray"))
			c.Usage = "stray positional argument"
		case 1:
			c.Args = append(c.Args, "--no-such-flag")
			c.Usage = "unknown flag"
		case 2:
			if c.Sub == "verify" || c.Sub == "vf" {
				c.Args = append(c.Args, "--dry-run")
				c.Usage = "flag of another subcommand"
			}
		}
		if c.Stdout == "tty" && !ptyOK() {
			c.Stdout = "pipe"
		}
		// --watch: without a file to watch (stdin) it has no effect; with a file that cannot be opened the command fails
		// (a watched file that exists is followed until the process is killed: part `watch`)
		if (c.Sub == "output" || c.Sub == "o" || c.Sub == "out") && (c.Input == "stdin" || c.Input == "dash" || c.Input == "missing") && rapid.IntRange(0, 7).Draw(t, "watch") == 0 {
			c.Args = append(c.Args, rapid.SampledFrom([]string{"--watch", "-w", "--watch=true"}).Draw(t, "wflag"))
		}
		// hostile names may only reach a real mkdir inside the library's jail via the chroot worker; keep them to dry runs
		if hostile && (c.Sub == "mkdir" || c.Sub == "m") && !c.DryRun {
			var kept []string
			for _, a := range c.Args {
				if a != "--dry-run=false" && a != "-d=false" {
					kept = append(kept, a)
				}
			}
			c.Args = append(kept, "--dry-run")
			c.DryRun = true
		}
		return c
	})
}

func c16Record(col *collector, c c16Case) {
	cl := []string{"sub:" + c.Sub, "stdout:" + c.Stdout, "input:" + c.Input}
	if c.Usage != "" {
		cl = append(cl, "usage-error")
	}
	if c.DryRun {
		cl = append(cl, "dry-run")
	}
	if c.Massive {
		cl = append(cl, "massive")
	}
	if c.Inodes > 0 {
		cl = append(cl, "file-system-runs-full")
	}
	col.eval(c.Usage != "" || len(c.Args) > 0 || c.Stdout != "pipe" || c.Input == "missing" || c.Input == "dir", hash64(fmt.Sprint(c.Sub, c.Args, c.Input, c.Stdout, c.Pre, c.Inodes), string(c.Doc)), cl...)
	col.sample(func() any {
		return map[string]any{"argv": append([]string{c.Sub}, c.Args...), "input": c.Input, "stdout": c.Stdout, "doc": truncate(string(c.Doc), 150)}
	})
}

func TestC16Random(t *testing.T) {
	col := coll("C16", "random")
	col.Rule = "rapid: command lines (output/mkdir/verify/template/version and aliases, unknown command) x flags from the real flag set (--format json|yaml|toml|bad, --massive, --massive-timeout 1m|0|-1s, --file path|-|missing|directory or stdin, --dry-run, -e ..., --target-dir, --strict, stray arguments, unknown flags, flags of another subcommand) x documents (well-formed, one injected malformation, hostile names with --dry-run, empty) x stdout state (pipe, /dev/full, closed) x directory states; the library is run in-process on the same input in an identical jail; non-trivial = a failure class or a non-default flag is involved"
	rapid.Check(t, func(rt *rapid.T) {
		c := c16Gen().Draw(rt, "case")
		if k := c16Excluded(c); k != "" {
			col.excluded(k)
			return
		}
		c16Record(col, c)
		if msg := c16Check(c); msg != "" {
			violation(rt, "C16", "c16", c, msg)
		}
	})
}

func c16Excluded(c c16Case) string { return "" }

// 'gtree template | gtree output' renders the documented sample tree
func TestC16Template(t *testing.T) {
	col := coll("C16", "template")
	col.Rule = "fixed regression case: the output of 'gtree template' piped into 'gtree output' equals the tree shown in the README"
	tpl := runCLI(c16Case{Sub: "template", Stdout: "pipe", Input: "stdin"})
	if tpl.infra != "" {
		t.Skip(tpl.infra)
	}
	out := runCLI(c16Case{Sub: "output", Stdout: "pipe", Input: "stdin", Doc: tpl.stdout})
	want := "gtree\n├── cmd\n│   └── gtree\n│       └── main.go\n├── testdata\n│   ├── sample1.md\n│   └── sample2.md\n├── Makefile\n└── tree.go\n"
	col.eval(true, 1, "template|output")
	col.eval(true, 2, "template|output")
	col.sample(func() any { return "gtree template | gtree output" })
	if tpl.exit != 0 || out.exit != 0 || string(out.stdout) != want {
		violation(t, "C16", "c16", c16Case{Sub: "output", Stdout: "pipe", Input: "stdin", Doc: tpl.stdout}, fmt.Sprintf("gtree template | gtree output: exit %d/%d\ngot:\n%s\nwant:\n%s", tpl.exit, out.exit, out.stdout, want))
	}
}

// ---- output --watch --------------------------------------------------------------------------------------------------

type c16Watch struct {
	Doc1   string `json:"doc1"`
	Doc2   string `json:"doc2"`
	Format string `json:"format,omitempty"`
}

func init() { registerReplay("c16w", c16WatchCheck) }

// c16WatchCheck: `gtree output --watch --file F` renders F, and renders it again after F has changed, until it is killed.
func c16WatchCheck(c c16Watch) string {
	msg := c16WatchOnce(c)
	if msg == "no-first-rendering" {
		// 20 s without the first rendering (the command polls every 500 ms): once more, to rule out a stalled machine
		if msg = c16WatchOnce(c); msg == "no-first-rendering" {
			return fmt.Sprintf("gtree output --watch --file F with F = %q wrote nothing within 20 s (twice); the library renders F without error", truncate(c.Doc1, 200))
		}
	}
	return msg
}

func c16WatchOnce(c c16Watch) string {
	bin := os.Getenv("VERIF_CLI_BIN")
	if bin == "" {
		return ""
	}
	want1, err1, _ := outputMD(c.Doc1, ops.Opts{Encode: c.Format})
	want2, err2, _ := outputMD(c.Doc2, ops.Opts{Encode: c.Format})
	if err1 != nil || err2 != nil || want1 == "" || want2 == "" {
		return ""
	}
	cliSeq++
	dir := filepath.Join(scratch, fmt.Sprintf("cliw.%d.%d", os.Getpid(), cliSeq))
	os.MkdirAll(dir, 0o755)
	defer os.RemoveAll(dir)
	doc := filepath.Join(dir, "doc.md")
	os.WriteFile(doc, []byte(c.Doc1), 0o644)
	args := []string{"output", "--watch", "--file", doc}
	if c.Format != "" {
		args = append(args, "--format", c.Format)
	}
	cmd := exec.Command(bin, args...)
	cmd.Dir = dir
	cmd.Env = append(os.Environ(), "NO_COLOR=1")
	var se bytes.Buffer
	cmd.Stderr = &se
	so, err := cmd.StdoutPipe()
	if err != nil || cmd.Start() != nil {
		ops.InfraCount.Add(1)
		return ""
	}
	var mu sync.Mutex
	var got []byte
	go func() {
		buf := make([]byte, 4096)
		for {
			n, err := so.Read(buf)
			mu.Lock()
			got = append(got, buf[:n]...)
			mu.Unlock()
			if err != nil {
				return
			}
		}
	}()
	exited := make(chan error, 1)
	go func() { exited <- cmd.Wait() }()
	waitFor := func(n int) string {
		deadline := time.Now().Add(20 * time.Second)
		for time.Now().Before(deadline) {
			mu.Lock()
			l := len(got)
			mu.Unlock()
			if l >= n {
				return ""
			}
			select {
			case err := <-exited:
				exited <- err
				time.Sleep(50 * time.Millisecond)
				mu.Lock()
				l = len(got)
				mu.Unlock()
				if l >= n {
					return ""
				}
				return fmt.Sprintf("the command ended (%v, stderr %q) after writing %d bytes", err, se.String(), l)
			case <-time.After(20 * time.Millisecond):
			}
		}
		return "timeout"
	}
	defer func() {
		cmd.Process.Kill()
		<-exited
	}()
	head := fmt.Sprintf("gtree %q, file first %q then %q\n", args, truncate(c.Doc1, 200), truncate(c.Doc2, 200))
	if msg := waitFor(len(want1)); msg != "" {
		if msg == "timeout" {
			return "no-first-rendering"
		}
		return head + "while waiting for the first rendering: " + msg
	}
	mu.Lock()
	first := string(got)
	mu.Unlock()
	if !strings.HasPrefix(first, want1) {
		return fmt.Sprintf("%sthe first rendering differs from the library's output: %s", head, firstDiff(first, want1))
	}
	// change the file; its modification time moves by whole seconds so that the change cannot go unnoticed
	// (replaced atomically, so that no half-written state can be rendered)
	future := time.Now().Add(3 * time.Second)
	os.WriteFile(doc+".new", []byte(c.Doc2), 0o644)
	os.Chtimes(doc+".new", future, future)
	os.Rename(doc+".new", doc)
	if msg := waitFor(len(want1) + len(want2)); msg != "" {
		if msg == "timeout" {
			mu.Lock()
			l := len(got)
			mu.Unlock()
			return fmt.Sprintf("%sthe file changed but no second rendering arrived within 20s (%d bytes so far)", head, l)
		}
		return head + "while waiting for the second rendering: " + msg
	}
	time.Sleep(30 * time.Millisecond)
	mu.Lock()
	all := string(got)
	mu.Unlock()
	rest := strings.TrimLeft(all[len(want1):], "\n")
	if !strings.HasPrefix(rest, want2) {
		return fmt.Sprintf("%safter the change the output continues with %q; the library renders the new content as %q", head, truncate(rest, 600), truncate(want2, 600))
	}
	return ""
}

func TestC16Watch(t *testing.T) {
	col := coll("C16", "watch")
	col.Rule = "rapid: `output --watch --file F` (+ --format): F holds one well-formed document, is replaced by another one (modification time moved by seconds); stdout must start with the library's rendering of the first and continue (after blank lines) with the library's rendering of the second; the process is then killed; non-trivial = always"
	rapid.Check(t, func(rt *rapid.T) {
		gen := func(label string) string {
			f := genForest(forestParams{maxNodes: 8, maxDepth: 4, names: sampled(validElemPool())}).Draw(rt, label)
			return model.Spell(f, genSpelling(f.HeadingOK()).Draw(rt, label+"sp"))
		}
		c := c16Watch{Doc1: gen("f1"), Doc2: gen("f2"), Format: rapid.SampledFrom([]string{"", "", "json", "yaml"}).Draw(rt, "format")}
		col.eval(true, hash64(fmt.Sprint(c)), "format:"+c.Format)
		col.sample(func() any { return c })
		if msg := c16WatchCheck(c); msg != "" {
			violation(rt, "C16", "c16w", c, msg)
		}
	})
}

// c16Sig: a run that is interrupted by SIGINT / SIGTERM while it waits for its input has not succeeded: its exit status must not be 0.
type c16Sig struct {
	Args    []string `json:"args"`
	Sig     int      `json:"sig"`
	DelayMs int      `json:"delayMs"`
	Partial string   `json:"partial,omitempty"` // written to stdin (which stays open) before the signal
}

func init() { registerReplay("c16s", c16SigCheck) }

func c16SigCheck(c c16Sig) string {
	bin := os.Getenv("VERIF_CLI_BIN")
	if bin == "" {
		return ""
	}
	cliSeq++
	dir := filepath.Join(scratch, fmt.Sprintf("clis.%d.%d", os.Getpid(), cliSeq))
	os.MkdirAll(dir, 0o755)
	defer os.RemoveAll(dir)
	cmd := exec.Command(bin, c.Args...)
	cmd.Dir = dir
	cmd.Env = append(os.Environ(), "NO_COLOR=1")
	var so, se bytes.Buffer
	cmd.Stdout, cmd.Stderr = &so, &se
	in, err := cmd.StdinPipe()
	if err != nil || cmd.Start() != nil {
		ops.InfraCount.Add(1)
		return ""
	}
	defer in.Close()
	io.WriteString(in, c.Partial)
	time.Sleep(time.Duration(c.DelayMs) * time.Millisecond)
	cmd.Process.Signal(syscall.Signal(c.Sig))
	done := make(chan error, 1)
	go func() { done <- cmd.Wait() }()
	select {
	case err = <-done:
	case <-time.After(20 * time.Second):
		// a process that ignores the signal and goes on waiting for its input: not this property's subject (end it)
		cmd.Process.Kill()
		<-done
		ops.InfraCount.Add(1)
		return ""
	}
	if err == nil {
		return fmt.Sprintf("gtree %q with its standard input still open (%q written so far) was sent signal %d after %d ms and exited with status 0 (stdout %q, stderr %q): an interrupted run has not succeeded",
			c.Args, c.Partial, c.Sig, c.DelayMs, truncate(so.String(), 200), truncate(se.String(), 200))
	}
	return ""
}

func TestC16Signal(t *testing.T) {
	col := coll("C16", "signal")
	col.Rule = "subcommand x flags (output, --format json|yaml, --massive, --dry-run; mkdir --dry-run; verify) x {SIGINT, SIGTERM} x delay {30, 200 ms} x {nothing, a partial document} written to a standard input that stays open; the exit status must not be 0; non-trivial = always"
	n := 0
	for _, args := range [][]string{{"output"}, {"output", "--format", "json"}, {"output", "--format", "yaml"}, {"output", "--massive"}, {"output", "--dry-run"}, {"mkdir", "--dry-run"}, {"verify"}} {
		for _, sig := range []int{int(syscall.SIGINT), int(syscall.SIGTERM)} {
			for _, d := range []int{30, 200} {
				for _, partial := range []string{"", "- a\n  - b\n"} {
					n++
					if n%nshards != shard {
						continue
					}
					c := c16Sig{Args: args, Sig: sig, DelayMs: d, Partial: partial}
					col.eval(true, hash64(fmt.Sprint(c)), "cmd:"+args[0], fmt.Sprintf("sig:%d", sig))
					col.sample(func() any { return c })
					if msg := c16SigCheck(c); msg != "" {
						violation(t, "C16", "c16s", c, msg)
					}
				}
			}
		}
	}
	col.Exhaustive = true
}
