package props

import (
	"bytes"
	"context"
	"fmt"
	"os"
	"runtime/debug"
	"strings"

	"verif/harness/model"
	"verif/harness/ops"

	"github.com/ddddddO/gtree"
)

// outputMD is the light in-process path for simple-mode text/encoded output (no jail, no hooks).
func outputMD(doc string, o ops.Opts) (out string, err error, panicked string) {
	var buf bytes.Buffer
	defer func() {
		if p := recover(); p != nil {
			panicked = fmt.Sprintf("%v\n%s", p, shortStack())
			out = buf.String()
		}
	}()
	err = gtree.OutputFromMarkdown(&buf, strings.NewReader(doc), o.Options(context.Background(), "")...)
	return buf.String(), err, ""
}

// outputMDFile is outputMD with an open regular file as the writer (code may treat *os.File specially).
func outputMDFile(doc string, o ops.Opts) (out string, err error, panicked string) {
	f, ferr := os.CreateTemp(ops.DefaultEnv.Scratch, "out")
	if ferr != nil {
		return outputMD(doc, o)
	}
	defer os.Remove(f.Name())
	defer f.Close()
	defer func() {
		if p := recover(); p != nil {
			panicked = fmt.Sprintf("%v\n%s", p, shortStack())
		}
	}()
	err = gtree.OutputFromMarkdown(f, strings.NewReader(doc), o.Options(context.Background(), "")...)
	b, _ := os.ReadFile(f.Name())
	return string(b), err, ""
}

func shortStack() string {
	s := string(debug.Stack())
	if len(s) > 2500 {
		s = s[:2500] + "..."
	}
	return s
}

func walkMD(doc string, o ops.Opts) (visits []ops.Visit, err error, panicked string) {
	defer func() {
		if p := recover(); p != nil {
			panicked = fmt.Sprintf("%v\n%s", p, shortStack())
		}
	}()
	err = gtree.WalkFromMarkdown(strings.NewReader(doc), func(wn *gtree.WalkerNode) error {
		visits = append(visits, ops.Visit{Name: wn.Name(), Branch: wn.Branch(), Row: wn.Row(), Level: wn.Level(), Path: wn.Path(), HasChild: wn.HasChild()})
		return nil
	}, o.Options(context.Background(), "")...)
	return visits, err, ""
}

// firstDiff describes the first differing line of two texts.
func firstDiff(got, want string) string {
	gl, wl := strings.Split(got, "\n"), strings.Split(want, "\n")
	for i := 0; i < len(gl) || i < len(wl); i++ {
		var g, w string
		if i < len(gl) {
			g = gl[i]
		} else {
			g = "<missing>"
		}
		if i < len(wl) {
			w = wl[i]
		} else {
			w = "<missing>"
		}
		if g != w {
			return fmt.Sprintf("first difference at line %d:\n  got  %q\n  want %q\n(got %d lines, want %d lines)", i+1, g, w, len(gl)-1, len(wl)-1)
		}
	}
	return "no difference"
}

func errText(err error) string {
	if err == nil {
		return "<nil>"
	}
	return err.Error()
}

// buildProgram returns the pre-order From-Root build program of a single tree.
func preorderProgram(t *model.T) []ops.AddStep {
	var prog []ops.AddStep
	var rec func(n *model.T, idx int)
	rec = func(n *model.T, idx int) {
		for _, k := range n.Kids {
			prog = append(prog, ops.AddStep{P: idx, N: k.Name})
			me := len(prog)
			rec(k, me)
		}
	}
	rec(t, 0)
	return prog
}

// applyProgram builds the model tree a build program stands for (Add = find-or-append).
func applyProgram(rootName string, prog []ops.AddStep) *model.T {
	nodes := []*model.T{{Name: rootName}}
	for _, s := range prog {
		p := s.P
		if p < 0 || p >= len(nodes) {
			p = 0
		}
		var found *model.T
		for _, k := range nodes[p].Kids {
			if k.Name == s.N {
				found = k
				break
			}
		}
		if found == nil {
			found = &model.T{Name: s.N}
			nodes[p].Kids = append(nodes[p].Kids, found)
		}
		nodes = append(nodes, found)
	}
	return nodes[0]
}
