package props

import (
	"fmt"
	"regexp"
	"strconv"
	"strings"
	"testing"

	"verif/harness/model"
	"verif/harness/ops"

	"pgregory.net/rapid"
)

// C09 — dry run touches nothing and predicts the real run.

type c09Case struct {
	Forest  model.Forest `json:"forest"`
	Route   string       `json:"route"` // output-md | mkdir-md | mkdir-root
	Massive bool         `json:"massive,omitempty"`
	Exts    []string     `json:"exts,omitempty"`
	Missing bool         `json:"missing,omitempty"` // the target directory given with WithTargetDir does not exist yet
	PreOps  []string     `json:"preOps,omitempty"`
	PreRoot bool         `json:"preRoot,omitempty"` // the first root already exists in the target (the real run would fail with "path already exists")
	Color   bool         `json:"color,omitempty"`   // (simple mode) the dry run is made with colours enabled, as on a terminal
	Full    bool         `json:"full,omitempty"`    // the dry run's target is a file system without room for a single entry (a dry run creates nothing, so it cannot notice)
	Order   int          `json:"order,omitempty"`   // ops.Opts.OptOrder of both runs: the option list rotated by Order/2 and reversed when odd
	NoIter  bool         `json:"noIter,omitempty"`  // output-md: with WithNoUseIterOfSimpleOutput (the non-iterator code path of the simple mode)
}

func init() { registerReplay("c09", c09Check) }

var summaryRe = regexp.MustCompile(`^(\d+) directories, (\d+) files$`)

func c09Check(c c09Case) string {
	f := c.Forest
	dry := ops.NewCase("mkdir", "md")
	switch c.Route {
	case "output-md":
		dry.Op = "output"
		dry.Doc = []byte(model.Spell(f, model.Plain2))
	case "mkdir-md":
		dry.Doc = []byte(model.Spell(f, model.Plain2))
	case "mkdir-root":
		dry.Entry = "root"
		dry.Root = &f[0].Name
		dry.Prog = preorderProgram(model.Merge(f)[0])
	}
	dry.Opts.DryRun = true
	dry.Opts.Exts = c.Exts
	dry.Opts.OptOrder = c.Order
	dry.Opts.Massive = c.Massive
	dry.Opts.Color = c.Color && !c.Massive
	dry.Opts.NoIter = c.NoIter && c.Route == "output-md"
	dry.FS = &ops.FSSpec{}
	dry.Opts.TargetOpt = "default" // the working directory is the target, as on the command line
	if c.Missing {
		dry.FS.TargetMissing = true
		dry.Opts.TargetOpt = "" // absolute path of a directory that does not exist yet (gtree mkdir --dry-run --target-dir new)
	}
	if c.Route == "mkdir-root" {
		dry.PreOps = c.PreOps
	}
	if c.PreRoot && !c.Missing && model.ValidElem(f[0].Name) {
		dry.FS.Pre = []ops.FSEntry{{Path: f[0].Name, Kind: "d"}}
	} else if c.Full && !c.Missing && c.Route != "mkdir-md" {
		dry.FS.InodeLimit = 1
	}
	dres := pool("chroot").Run(&dry)
	head := fmt.Sprintf("forest %s route=%s massive=%v exts=%q\n", f, c.Route, c.Massive, c.Exts)
	if dres.Infra != "" {
		return ""
	}
	if cr := dres.Crashed(); cr != "" {
		return head + "dry run: " + cr
	}
	// (1) purity
	if cr, rm, ch := ops.Diff(dres.Before, dres.After); len(cr)+len(rm)+len(ch) != 0 {
		return fmt.Sprintf("%sthe dry run changed the filesystem: created %v removed %v changed %v", head, cr, rm, ch)
	}
	// the real run
	real := ops.NewCase("mkdir", "md")
	if c.Route == "mkdir-root" {
		real.Entry = "root"
		real.Root = dry.Root
		real.Prog = dry.Prog
	} else {
		real.Doc = []byte(model.Spell(f, model.Plain2))
	}
	real.Opts.Exts = c.Exts
	real.Opts.OptOrder = c.Order
	real.FS = &ops.FSSpec{}
	rres := pool("chroot").Run(&real)
	if rres.Infra != "" {
		return ""
	}
	if cr := rres.Crashed(); cr != "" {
		return head + "real run: " + cr
	}
	// (4) rejection iff, restricted to forests where only the names can be the cause
	osRefusal := false
	f.Walk(func(_ int, ch []*model.T) {
		if len(ch[len(ch)-1].Name) > 255 {
			osRefusal = true
		}
	})
	if c.PreRoot && !c.Missing && model.ValidElem(f[0].Name) && f.AllNames(model.ValidElem) && !dres.Err.Nil {
		return fmt.Sprintf("%sall names are valid, yet the dry run rejected the tree (%s) because a root already exists in the target: a dry run rejects a tree only because of its names", head, dres.Err.Text)
	}
	if !osRefusal && !hasDupRoots(f) && dres.Err.Nil != rres.Err.Nil {
		return fmt.Sprintf("%sdry run returned %q but the real run returned %q", head, errOrNil(dres), errOrNil(rres))
	}
	if !dres.Err.Nil {
		return ""
	}
	// (2) report shape
	report := string(dres.Out)
	if c.Route != "output-md" {
		report = string(dres.Color)
	}
	merged := model.Merge(f)
	blocks := model.DryRunReport(merged, model.DefaultBranch, c.Exts)
	if c.Color && !c.Massive {
		// with colours the report is the same text with colour sequences AROUND the names (which colours is the library's
		// choice); every name must still be there verbatim, whatever it contains
		if msg := colouredReportOK(report, merged, c.Exts); msg != "" {
			return fmt.Sprintf("%scoloured dry-run report: %s\ngot:\n%q\nplain report:\n%q", head, msg, report, strings.Join(blocks, ""))
		}
	} else if c.Massive {
		if !isPermutationOfBlocks(report, blocks) {
			return fmt.Sprintf("%sdry-run report is not a permutation of the per-root blocks (tree text + counts)\ngot:\n%swant (any order):\n%s", head, report, strings.Join(blocks, ""))
		}
	} else if report != strings.Join(blocks, "") {
		return fmt.Sprintf("%sdry-run report differs: %s\ngot:\n%swant:\n%s", head, firstDiff(report, strings.Join(blocks, "")), report, strings.Join(blocks, ""))
	}
	// (3) prediction: the counts printed for each root equal what the real Mkdir created beneath (and including) it
	if rres.Err.Nil && !hasDupRoots(f) {
		made := targetRel(rres.After)
		// the summary line follows each root's tree text
		lines := strings.Split(report, "\n")
		var sums [][2]int
		for _, l := range lines {
			if m := summaryRe.FindStringSubmatch(l); m != nil {
				d, _ := strconv.Atoi(m[1])
				fl, _ := strconv.Atoi(m[2])
				sums = append(sums, [2]int{d, fl})
			}
		}
		if len(sums) != len(merged) {
			return fmt.Sprintf("%s%d summary lines for %d roots", head, len(sums), len(merged))
		}
		var realCounts, printed []string
		for i, r := range merged {
			d, fl := 0, 0
			for p, desc := range made {
				if p == r.Name || strings.HasPrefix(p, r.Name+"/") {
					if ops.Kind(desc) == "d" {
						d++
					} else {
						fl++
					}
				}
			}
			realCounts = append(realCounts, fmt.Sprintf("%d/%d", d, fl))
			printed = append(printed, fmt.Sprintf("%d/%d", sums[i][0], sums[i][1]))
		}
		if c.Massive {
			a, b := append([]string{}, realCounts...), append([]string{}, printed...)
			sortStrings(a)
			sortStrings(b)
			realCounts, printed = a, b
		}
		if strings.Join(realCounts, " ") != strings.Join(printed, " ") {
			return fmt.Sprintf("%sdry run predicts (dirs/files per root) %v but the real Mkdir created %v", head, printed, realCounts)
		}
	}
	return ""
}

func sortStrings(s []string) {
	for i := 1; i < len(s); i++ {
		for j := i; j > 0 && s[j] < s[j-1]; j-- {
			s[j], s[j-1] = s[j-1], s[j]
		}
	}
}

func c09Excluded(c c09Case) string {
	if c.Route == "mkdir-md" && known("C09", "md-mkdir-dryrun") {
		return "md-mkdir-dryrun"
	}
	return ""
}

func c09Record(col *collector, c c09Case) {
	d, fl := 0, 0
	inner := false
	hostile := false
	model.Merge(c.Forest).Walk(func(_ int, ch []*model.T) {
		n := ch[len(ch)-1]
		if model.IsFile(n, c.Exts) {
			fl++
		} else {
			d++
			if len(n.Kids) > 0 {
				for _, e := range c.Exts {
					if strings.HasSuffix(n.Name, e) {
						inner = true
					}
				}
			}
		}
		if !model.ValidElem(n.Name) {
			hostile = true
		}
	})
	cl := []string{"route:" + c.Route}
	if c.NoIter && c.Route == "output-md" {
		cl = append(cl, "no-iter-path")
	}
	if c.Color && !c.Massive {
		cl = append(cl, "colours-enabled")
	}
	if c.Full && !c.Missing && !c.PreRoot && c.Route != "mkdir-md" {
		cl = append(cl, "dry-run-on-a-full-file-system")
	}
	if c.Massive {
		cl = append(cl, "massive")
	} else {
		cl = append(cl, "simple")
	}
	if inner {
		cl = append(cl, "ext-on-inner-node")
	}
	if hostile {
		cl = append(cl, "hostile-name")
	}
	if c.Missing {
		cl = append(cl, "target-dir-does-not-exist-yet")
	}
	col.eval(d >= 1 && fl >= 1 || hostile, hash64(fmt.Sprint(c)), cl...)
	col.sample(func() any {
		return map[string]any{"forest": c.Forest.String(), "route": c.Route, "massive": c.Massive, "exts": c.Exts}
	})
}

func TestC09Known(t *testing.T) {
	col := coll("C09", "known-probes")
	if known("C09", "md-mkdir-dryrun") {
		c := c09Case{Forest: model.Forest{{Name: "a", Kids: []*model.T{{Name: "b"}}}}, Route: "mkdir-md"}
		col.eval(false, 0, "known-probe")
		if msg := c09Check(c); msg != "" {
			col.knownFinding("key=md-mkdir-dryrun MkdirFromMarkdown with WithDryRun really creates the directories: '- a\\n  - b' creates a/b in the target")
		}
	}
}

func TestC09Random(t *testing.T) {
	col := coll("C09", "random")
	col.Rule = "rapid: forests (valid path elements, 1 in 3 with hostile names) x extension lists x route {OutputFromMarkdown+dry-run (the CLI route), MkdirFromMarkdown+dry-run, MkdirFromRoot+dry-run} x {simple, massive}; the dry run and a real Mkdir of the same forest both run in fresh jails of a chrooted worker; oracle: no filesystem diff, report == renderer + counts, counts == entries the real run created per root, dry error iff real error; non-trivial = >=1 file and >=1 directory counted, or a hostile name"
	rapid.Check(t, func(rt *rapid.T) {
		route := rapid.SampledFrom([]string{"output-md", "output-md", "mkdir-md", "mkdir-root"}).Draw(rt, "route")
		entry := "md"
		if route == "mkdir-root" {
			entry = "root"
		}
		names := sampled(validElemPool())
		if rapid.IntRange(0, 2).Draw(rt, "hostile") == 0 {
			names = rapid.OneOf(sampled(c07Hostile(entry)), sampled(validElemPool()), sampled(validElemPool()), sampled(validElemPool()))
		}
		if entry == "root" && rapid.IntRange(0, 3).Draw(rt, "newlineNames") == 0 {
			// From-Root names may hold line breaks (valid in a path element on this system): the report is still the tree text
			names = rapid.OneOf(sampled(validElemPool()), sampled(validElemPool()), sampled([]string{"notes\n", "a\nb", "\n", "x\n\n", "\ny"}))
		}
		f := genForest(forestParams{maxNodes: 12, maxDepth: 6, names: names, oneRoot: entry == "root"}).Draw(rt, "forest")
		if hasDupRoots(f) && f.AllNames(model.ValidElem) {
			uniqRoots(f)
		}
		c := c09Case{Forest: f, Route: route, Massive: rapid.IntRange(0, 2).Draw(rt, "massive") == 0, Exts: genExts(extSources(f)).Draw(rt, "exts")}
		c.Order = rapid.IntRange(0, 9).Draw(rt, "optOrder")
		c.NoIter = route == "output-md" && rapid.IntRange(0, 2).Draw(rt, "noIter") == 0
		c.Full = mountOK() && rapid.IntRange(0, 4).Draw(rt, "full") == 0
		noNewline := true
		f.Walk(func(_ int, ch []*model.T) { noNewline = noNewline && !strings.Contains(ch[len(ch)-1].Name, "\n") })
		c.Color = !c.Massive && noNewline && rapid.IntRange(0, 3).Draw(rt, "colour") == 0
		c.Missing = rapid.IntRange(0, 3).Draw(rt, "missingTarget") == 0
		c.PreRoot = rapid.IntRange(0, 3).Draw(rt, "preRoot") == 0
		if route == "mkdir-root" && rapid.IntRange(0, 2).Draw(rt, "withPreOps") == 0 {
			c.PreOps = rapid.SliceOfN(rapid.SampledFrom(preOpPool), 1, 2).Draw(rt, "preOps")
		}
		if k := c09Excluded(c); k != "" {
			col.excluded(k)
			return
		}
		c09Record(col, c)
		if msg := c09Check(c); msg != "" {
			violation(rt, "C09", "c09", c, msg)
		}
	})
}

func TestC09Exhaustive(t *testing.T) {
	col := coll("C09", "exhaustive")
	maxN := pick(4, 6)
	extLists := [][]string{nil, {"b"}, {"", "a"}}
	col.Rule = fmt.Sprintf("all forests <=%d nodes over {a,b,ab} with distinct roots x %d extension lists x routes (output-md, mkdir-root for single roots) x rotating simple/massive", maxN, len(extLists))
	i, rot := 0, 0
	model.EnumForests(maxN, []string{"a", "b", "ab"}, func(f model.Forest) {
		if hasDupRoots(f) {
			return
		}
		i++
		if i%nshards != shard {
			return
		}
		for _, exts := range extLists {
			routes := []string{"output-md"}
			if len(f) == 1 {
				routes = append(routes, "mkdir-root")
			}
			for _, r := range routes {
				rot++
				c := c09Case{Forest: f, Route: r, Exts: exts, Massive: rot%3 == 0, Missing: rot%4 == 1, PreRoot: rot%5 == 2, NoIter: rot%7 < 2}
				c09Record(col, c)
				if msg := c09Check(c); msg != "" {
					violation(t, "C09", "c09", c, msg)
				}
			}
		}
	})
	col.Exhaustive = true
}


var sgrOnly = regexp.MustCompile(`^(\x1b\[[0-9;]*m)*$`)
var sgrAny = regexp.MustCompile(`\x1b\[[0-9;]*m`)

// colouredReportOK: line by line, the coloured report must be branch + " " + <colour sequences> + name + <colour sequences>
// for every node, then an empty line and the counts (colour sequences allowed anywhere in the counts line).
func colouredReportOK(report string, merged model.Forest, exts []string) string {
	rest := report
	next := func() (string, bool) {
		if rest == "" {
			return "", false
		}
		i := strings.Index(rest, "\n")
		if i < 0 {
			l := rest
			rest = ""
			return l, true
		}
		l := rest[:i]
		rest = rest[i+1:]
		return l, true
	}
	for _, r := range merged {
		_, facts := model.Render(model.Forest{r}, model.DefaultBranch)
		for _, f := range facts {
			line, ok := next()
			if !ok {
				return fmt.Sprintf("the report ends before the line of node %q", f.Name)
			}
			prefix := ""
			if f.Level > 1 {
				prefix = f.Branch + " "
			}
			// colour sequences may sit anywhere OUTSIDE the name (which parts are coloured is the library's choice): some
			// occurrence of the name must have the branch before it and nothing after it once colour sequences are removed
			found := false
			for i := 0; i+len(f.Name) <= len(line); i++ {
				if line[i:i+len(f.Name)] == f.Name && sgrAny.ReplaceAllString(line[:i], "") == prefix && sgrOnly.MatchString(line[i+len(f.Name):]) {
					found = true
					break
				}
			}
			if !found {
				return fmt.Sprintf("line %q is not the branch %q and the name %q (verbatim) with colour sequences around them", line, prefix, f.Name)
			}
		}
		if line, ok := next(); !ok || line != "" {
			return fmt.Sprintf("want an empty line after the tree of root %q, got %q", r.Name, line)
		}
		d, fl := model.CountKinds(r, exts)
		want := fmt.Sprintf("%d directories, %d files", d, fl)
		line, _ := next()
		if sgrAny.ReplaceAllString(line, "") != want {
			return fmt.Sprintf("counts line %q, want %q", line, want)
		}
	}
	if rest != "" {
		return fmt.Sprintf("trailing text %q", rest)
	}
	return ""
}
