package props

import (
	"fmt"
	"strings"
	"testing"

	"verif/harness/model"
	"verif/harness/ops"

	"pgregory.net/rapid"
)

// C11 — massive mode always returns, with the context's error when cancelled, leaves no goroutine and has no data race
// (fault enumeration: failing blocks x cancellation at every offset x reader/writer/callback failure at every index,
// under perturbed schedules; the same scenarios under the race detector).

type c11Case struct {
	Doc     []byte        `json:"doc"`
	Op      string        `json:"op"` // text json yaml dryrun walk mkdir verify
	Exts    []string      `json:"exts,omitempty"`
	Strict  bool          `json:"strict,omitempty"`
	Pre     []ops.FSEntry `json:"pre,omitempty"`
	Faults  ops.Faults    `json:"faults"`
	Cancel  ops.Cancel    `json:"cancel"`
	Sched   ops.Sched     `json:"sched"`
	Race    bool          `json:"race,omitempty"`
	Blocks  int           `json:"blocks,omitempty"`  // root blocks in the document
	Failing int           `json:"failing,omitempty"` // blocks made to fail
	Entry   string        `json:"entry,omitempty"`   // "" = md, "root" = From-Root with WithMassive
	NilCtx  bool          `json:"nilCtx,omitempty"`  // WithMassive(nil): documented to mean context.Background()
	Inodes  int           `json:"inodes,omitempty"`  // mkdir: the target file system has room for Inodes-1 entries (ENOSPC beyond)
	OneCPU  bool          `json:"oneCPU,omitempty"`  // with SingleP: the worker process is confined to one CPU (taskset), so runtime.NumCPU() is 1 too
	SingleP bool          `json:"singleP,omitempty"` // the worker process was started with GOMAXPROCS=1 ("every schedule" includes a one-CPU machine)
}

func init() { registerReplay("c11", c11Check) }

func c11Make(c c11Case) ops.Case {
	cc := c10Case{Doc: c.Doc, Op: c.Op, Exts: c.Exts, Strict: c.Strict, Pre: c.Pre, Sched: c.Sched}
	cs := c10Make(cc, true)
	cs.Faults = c.Faults
	cs.Cancel = c.Cancel
	cs.Leak = true
	if c.Inodes > 0 && cs.FS != nil {
		cs.FS.InodeLimit = c.Inodes
	}
	if c.NilCtx && c.Cancel.Kind == "" {
		cs.Opts.NilCtx = true
	}
	if c.Entry == "root" || c.Entry == "alias" {
		cs.Entry = c.Entry // "alias": the deprecated ...Programmably functions
		r := "r"
		cs.Root = &r
		cs.Prog = []ops.AddStep{{P: 0, N: "a"}, {P: 1, N: "b"}, {P: 0, N: "c"}}
		cs.Doc = nil
	}
	return cs
}

func c11Check(c c11Case) string {
	cs := c11Make(c)
	mode := "plain"
	if c.Race {
		mode = "race"
	} else if c.SingleP && c.OneCPU {
		mode = "onecpu"
	} else if c.SingleP {
		mode = "single"
	}
	res := pool(mode).Run(&cs)
	head := fmt.Sprintf("op=%s entry=%s doc=%q faults=%+v cancel=%+v sched=%+v race=%v\n", c.Op, c.Entry, truncate(string(c.Doc), 300), c.Faults, c.Cancel, c.Sched, c.Race)
	if res.Infra != "" {
		return ""
	}
	if res.Race != "" {
		return head + "DATA RACE reported by the race detector:\n" + res.Race
	}
	if cr := res.Crashed(); cr != "" {
		return head + cr
	}
	if res.LateReadBytes > 70000 {
		// one Read in flight and the rest of the current row may still be consumed (the scanner's buffer is <= 64 KiB); more
		// than that means a goroutine went on reading the caller's input after the call had returned
		return fmt.Sprintf("%sthe call returned (%s) but %d more bytes were read from the caller's reader afterwards", head, errOrNil(res), res.LateReadBytes)
	}
	if c.Faults.ReaderBlock > 0 && res.Err.Nil && c.Entry == "" {
		return fmt.Sprintf("%sthe input went quiet after %d bytes without ending, the context was cancelled, and the call returned nil", head, c.Faults.ReaderBlock-1)
	}
	if res.CloseDuringRead {
		return head + "the caller's reader (an io.Closer) had Close called on it while one of its Reads was still pending in another goroutine: unsynchronised concurrent use of the caller's reader"
	}
	if res.Leaked != "" {
		return fmt.Sprintf("%sthe call returned (%s) but goroutines it started are still there after the settling period:\n%s", head, errOrNil(res), truncate(res.Leaked, 3000))
	}
	faulted := c.Faults.ReaderFailAt >= 0 || c.Faults.WriterFailAt >= 0 || c.Faults.CallbackFailAt >= 0 || c.Inodes > 0
	switch c.Cancel.Kind {
	case "pre", "deadline", "customctx-cancel":
		if res.Err.Nil {
			return head + "the context was cancelled before the call but the call returned nil"
		}
		if !res.Err.IsCtx && !faulted && c.Failing == 0 {
			return fmt.Sprintf("%sthe context was cancelled before the call; want its error, got %q", head, res.Err.Text)
		}
	case "atOffset":
		if res.CtxCancelled && c.Entry == "" {
			// cancelled synchronously inside a Read; if at least one further root block was still unread the work cannot
			// have been finished
			rest := c.Doc
			if c.Cancel.K < len(rest) {
				rest = rest[c.Cancel.K:]
			} else {
				rest = nil
			}
			furtherBlock := false
			for _, l := range strings.Split(string(rest), "\n")[1:] {
				if len(l) > 0 && strings.ContainsRune("-*+#", rune(l[0])) {
					furtherBlock = true
				}
			}
			if furtherBlock && res.Err.Nil {
				return head + "the context was cancelled while root blocks were still unread but the call returned nil"
			}
			if furtherBlock && !res.Err.IsCtx && !faulted && c.Failing == 0 {
				return fmt.Sprintf("%sthe context was cancelled while root blocks were still unread; want the context's error, got %q", head, res.Err.Text)
			}
		}
	}
	// under any schedule: nil means the result is complete
	if res.Err.Nil && !faulted && c.Entry == "" {
		ref := c10Case{Doc: c.Doc, Op: c.Op, Exts: c.Exts, Strict: c.Strict, Pre: c.Pre}
		sc := c10Make(ref, false)
		sres := ops.DefaultEnv.Run(&sc)
		if sres.Infra == "" && sres.Crashed() == "" && sres.Err.Nil {
			switch c.Op {
			case "text", "json", "yaml", "dryrun":
				if len(res.Out) != len(sres.Out) {
					return fmt.Sprintf("%sthe call returned nil but wrote %d bytes; the complete output has %d bytes\nwritten:\n%s", head, len(res.Out), len(sres.Out), truncate(string(res.Out), 800))
				}
			case "walk":
				if len(res.Visits) != len(sres.Visits) {
					return fmt.Sprintf("%sthe call returned nil after %d callbacks; the complete walk has %d", head, len(res.Visits), len(sres.Visits))
				}
			case "mkdir":
				if snapString(stripMtime(targetRel(res.After))) != snapString(stripMtime(targetRel(sres.After))) {
					return head + "the call returned nil but the directories are incomplete"
				}
			}
		}
	}
	if res.WriteFailed && res.Err.Nil {
		return head + "a write failed but the call returned nil"
	}
	if c.Faults.ReaderFailAt >= 0 && c.Faults.ReaderFailAt <= len(c.Doc) && res.Err.Nil && c.Entry == "" {
		return head + "the reader failed but the call returned nil"
	}
	return ""
}

func c11Record(col *collector, c c11Case) {
	cl := []string{"op:" + c.Op, "cancel:" + c.Cancel.Kind}
	if c.Cancel.Kind == "" {
		cl[1] = "cancel:none"
	}
	switch {
	case c.Faults.ReaderFailAt >= 0:
		cl = append(cl, "fault:reader")
	case c.Faults.WriterFailAt >= 0:
		cl = append(cl, "fault:writer")
	case c.Faults.CallbackFailAt >= 0:
		cl = append(cl, "fault:callback")
	}
	if c.Failing >= 3 {
		cl = append(cl, "failing-blocks>=3")
	} else if c.Failing > 0 {
		cl = append(cl, "failing-blocks:1-2")
	}
	if c.Race {
		cl = append(cl, "race-build")
	}
	if c.SingleP {
		cl = append(cl, "process-with-one-P")
	}
	if c.Inodes > 0 {
		cl = append(cl, "fault:file-system-full")
	}
	if c.Faults.ReaderBlock > 0 {
		cl = append(cl, "input-goes-quiet(idle-pipe)")
	}
	for p := range c.Sched.Hook {
		cl = append(cl, "hook:"+p)
	}
	cl = append(cl, fmt.Sprintf("gomaxprocs:%d", c.Sched.GOMAXPROCS))
	inside := c.Cancel.Kind == "atOffset" && c.Cancel.K > 0 && c.Cancel.K < len(c.Doc)
	nontrivial := c.Failing >= 3 || inside || c.Faults.ReaderFailAt >= 1 || c.Faults.WriterFailAt >= 1 || c.Faults.CallbackFailAt >= 1 || c.Cancel.Kind == "atWrite" || c.Cancel.Kind == "atCallback" || c.Cancel.Kind == "afterDelay"
	col.eval(nontrivial, hash64(string(c.Doc), fmt.Sprint(c.Op, c.Exts, c.Strict, c.Pre, c.Faults, c.Cancel, c.Sched, c.Race, c.Entry, c.NilCtx, c.SingleP, c.OneCPU, c.Inodes)), cl...)
	col.sample(func() any {
		return map[string]any{"doc": truncate(string(c.Doc), 200), "op": c.Op, "faults": c.Faults, "cancel": c.Cancel, "sched": c.Sched, "race": c.Race}
	})
}

// c11Doc builds a document of nroots root blocks of which the listed ones fail at the stage that op exercises.
func c11Doc(t *rapid.T, op string, nroots int, failing map[int]bool, heading bool) (doc []byte, pre []ops.FSEntry, exts []string) {
	var sb strings.Builder
	var f model.Forest
	for i := 0; i < nroots; i++ {
		root := fmt.Sprintf("r%d", i)
		kid := "k"
		bad := failing[i]
		kind := 0
		if bad {
			kind = rapid.IntRange(0, 4).Draw(t, "failkind")
		}
		if bad && kind == 4 && (op == "verify" || op == "mkdir") {
			root = strings.Repeat("L", 250) + fmt.Sprintf("%06d", i)
		}
		rootLine := "- " + root
		kidIndent := "  "
		if heading {
			rootLine = "# " + root
			kidIndent = ""
		}
		sb.WriteString(rootLine + "\n")
		switch {
		case bad && kind == 0: // parse error in the block
			sb.WriteString(kidIndent + "x no bullet\n")
		case bad && kind == 4 && (op == "verify" || op == "mkdir"): // the filesystem refuses the root itself (its name has 256 bytes, see above)
			sb.WriteString(kidIndent + "- " + kid + "\n")
		case bad && kind == 3: // an item nested two levels deeper than the row before it (the unit is known from earlier blocks)
			sb.WriteString(kidIndent + "- " + kid + "\n" + kidIndent + "    - too-deep\n" + kidIndent + "  - after\n")
		case bad && kind == 1 && (op == "dryrun" || op == "verify" || op == "mkdir"): // validation error
			sb.WriteString(kidIndent + "- a/b\n")
		case bad && kind == 2 && op == "verify": // verify mismatch: this root is missing from the directory
			sb.WriteString(kidIndent + "- " + kid + "\n")
		case bad && op == "mkdir": // root already exists
			sb.WriteString(kidIndent + "- " + kid + "\n")
			pre = append(pre, ops.FSEntry{Path: root, Kind: "d"})
		case bad:
			sb.WriteString(kidIndent + "- \n") // empty text
		default:
			sb.WriteString(kidIndent + "- " + kid + "\n" + kidIndent + "  - g.go\n")
			f = append(f, &model.T{Name: root, Kids: []*model.T{{Name: kid, Kids: []*model.T{{Name: "g.go"}}}}})
		}
	}
	if op == "verify" {
		pre = materialize(f, nil, nil)
	}
	return []byte(sb.String()), pre, []string{".go"}
}

func c11Gen(race bool) *rapid.Generator[c11Case] {
	return rapid.Custom(func(t *rapid.T) c11Case {
		op := rapid.SampledFrom(c10Ops).Draw(t, "op")
		nroots := rapid.SampledFrom([]int{1, 2, 3, 5, 12, 25, 60}).Draw(t, "nroots")
		failing := map[int]bool{}
		nf := rapid.SampledFrom([]int{0, 0, 1, 2, 3, 5, 12}).Draw(t, "nfailing")
		for i := 0; i < nf && i < nroots; i++ {
			failing[rapid.IntRange(0, nroots-1).Draw(t, "failAt")] = true
		}
		c := c11Case{Op: op, Faults: ops.NoFaults(), Race: race, Blocks: nroots, Failing: len(failing)}
		c.Doc, c.Pre, c.Exts = c11Doc(t, op, nroots, failing, rapid.IntRange(0, 3).Draw(t, "heading") == 0)
		c.Strict = rapid.Bool().Draw(t, "strict")
		switch rapid.IntRange(0, 5).Draw(t, "fault") {
		case 0:
			c.Faults.ReaderFailAt = rapid.IntRange(0, len(c.Doc)).Draw(t, "readerAt")
			c.Faults.ReaderMode = rapid.IntRange(0, 3).Draw(t, "readerMode")
			c.Faults.ErrKind = rapid.IntRange(0, 5).Draw(t, "errKind")
		case 1:
			c.Faults.WriterFailAt = rapid.IntRange(0, 3*nroots).Draw(t, "writerAt")
			c.Faults.WriterShort = rapid.IntRange(-1, 2).Draw(t, "short")
			c.Faults.ErrKind = rapid.IntRange(0, 8).Draw(t, "errKind")
		case 2:
			c.Faults.CallbackFailAt = rapid.IntRange(0, 3*nroots).Draw(t, "cbAt")
			c.Faults.CbErrKind = rapid.IntRange(0, 8).Draw(t, "cbErr") // 8: the callback ends its goroutine (runtime.Goexit)
		}
		// the reader / writer as the library sees them: plain; io.WriterTo + io.StringWriter; a reader that is also an io.Closer
		c.Faults.IOKind = rapid.SampledFrom([]int{0, 0, 1, 2, 5}).Draw(t, "ioKind")
		switch rapid.IntRange(0, 9).Draw(t, "cancel") {
		case 8:
			c.Cancel = ops.Cancel{Kind: "customctx"}
		case 9:
			c.Cancel = ops.Cancel{Kind: "customctx-cancel"}
		case 0:
			c.Cancel = ops.Cancel{Kind: "pre"}
		case 1, 2:
			c.Cancel = ops.Cancel{Kind: "atOffset", K: rapid.IntRange(0, len(c.Doc)).Draw(t, "offset")}
		case 3:
			c.Cancel = ops.Cancel{Kind: "afterDelay", K: rapid.SampledFrom([]int{0, 10, 50, 200, 1000}).Draw(t, "delayUs")}
		case 4:
			c.Cancel = ops.Cancel{Kind: "deadline"}
		case 5:
			if rapid.Bool().Draw(t, "w") {
				c.Cancel = ops.Cancel{Kind: "atWrite", K: rapid.IntRange(0, 3*nroots).Draw(t, "atWrite")}
			} else {
				c.Cancel = ops.Cancel{Kind: "atCallback", K: rapid.IntRange(0, 3*nroots).Draw(t, "atCb")}
			}
		}
		if rapid.IntRange(0, 5).Draw(t, "idleReader") == 0 {
			// the input goes quiet after k bytes (an idle pipe, a terminal): the Read in flight cannot be interrupted, but
			// cancelling the context must still end the call ("every instant at which the context is cancelled")
			c.Faults.ReaderFailAt = -1
			c.Faults.ReaderBlock = 1 + rapid.IntRange(0, len(c.Doc)).Draw(t, "quietAfter")
			c.Faults.IOKind = rapid.SampledFrom([]int{0, 0, 5}).Draw(t, "idleIoKind")
			switch c.Cancel.Kind {
			case "pre", "deadline", "afterDelay", "customctx-cancel":
			default:
				c.Cancel = ops.Cancel{Kind: "afterDelay", K: rapid.SampledFrom([]int{0, 50, 1000, 20000}).Draw(t, "idleDelayUs")}
			}
		}
		if rapid.IntRange(0, 9).Draw(t, "fromRoot") == 0 && c.Faults.ReaderBlock == 0 && (op == "text" || op == "json" || op == "walk" || op == "dryrun") {
			c.Entry = rapid.SampledFrom([]string{"root", "root", "alias"}).Draw(t, "rootEntry")
			if op == "walk" {
				c.Faults.CbNested = rapid.Bool().Draw(t, "nestedCall")
			}
			if op == "dryrun" {
				c.Op = "mkdir"
				c.Exts = nil
			}
		}
		c.NilCtx = rapid.IntRange(0, 9).Draw(t, "nilCtx") == 0
		if op == "mkdir" && c.Entry == "" && mountOK() && rapid.IntRange(0, 2).Draw(t, "fsFull") == 0 {
			c.Inodes = 1 + rapid.IntRange(0, 3*nroots).Draw(t, "room")
		}
		c.SingleP = !race && rapid.IntRange(0, 7).Draw(t, "singleP") == 0
		c.Sched = genSched(t)
		c.OneCPU = c.SingleP && rapid.Bool().Draw(t, "oneCPU")
		if c.SingleP {
			c.Sched.GOMAXPROCS = 0 // keep the single P the process started with
		}
		if rapid.Bool().Draw(t, "handleWait") {
			if c.Sched.Hook == nil {
				c.Sched.Hook = map[string]ops.HookAct{}
			}
			c.Sched.Hook["handle.wait"] = ops.HookAct{Action: "sleep", N: rapid.SampledFrom([]int{100, 2000}).Draw(t, "waitUs")}
		}
		return c
	})
}

func TestC11Random(t *testing.T) {
	col := coll("C11", "random")
	col.Rule = "rapid: documents of 1..60 root blocks of which 0..12 fail at a drawn stage (parse error, invalid name under dry-run/verify/mkdir, verify mismatch, pre-existing root) x operation x one injected I/O fault (reader at a byte offset, writer at a write index incl. short writes, callback at a visit index) x cancellation (none, before the call, inside the Read crossing a byte offset, from a timer after 0..1000us, expired deadline, at a write, at a callback) x schedule perturbation incl. a delay before handlePipelineErr's select; each call runs in a worker with a hang watchdog and a goroutine-leak scan; non-trivial = >=3 failing blocks, cancellation strictly inside, or a fault at index>=1"
	rapid.Check(t, func(rt *rapid.T) {
		c := c11Gen(false).Draw(rt, "case")
		c11Record(col, c)
		if msg := c11Check(c); msg != "" {
			violation(rt, "C11", "c11", c, msg)
		}
	})
}

func TestC11Race(t *testing.T) {
	if raceBin == "" {
		t.Skip("no race-instrumented worker binary")
	}
	col := coll("C11", "race")
	col.Rule = "the scenarios of the random part executed in a worker built with -race (GORACE=halt_on_error=1); a DATA RACE report is a violation"
	rapid.Check(t, func(rt *rapid.T) {
		c := c11Gen(true).Draw(rt, "case")
		c11Record(col, c)
		if msg := c11Check(c); msg != "" {
			violation(rt, "C11", "c11", c, msg)
		}
	})
}

// One long root block (hundreds of kilobytes below a single root / heading), cancelled early or failing early: whatever
// happens, nobody may go on consuming the caller's reader after the call has returned.
func TestC11LongBlock(t *testing.T) {
	col := coll("C11", "long-block")
	col.Rule = "documents with ONE root block of 200..400 KiB (list root or # heading with thousands of items) x operation x early cancellation (byte offset 0..2000, at a callback, at a write) or an early failing line x reader chunking; oracle: the reader is not consumed after return (<= 70000 bytes), no leak, context error"
	n := 0
	for _, heading := range []bool{false, true} {
		for _, size := range []int{12000, 25000} {
			var sb strings.Builder
			if heading {
				sb.WriteString("# root\n")
			} else {
				sb.WriteString("- root\n")
			}
			for i := 0; i < size; i++ {
				if heading {
					fmt.Fprintf(&sb, "- item-%d\n", i)
				} else {
					fmt.Fprintf(&sb, "  - item-%d\n", i)
				}
			}
			doc := sb.String()
			bad := strings.Replace(doc, "item-3\n", "item-3\n  x no bullet\n", 1)
			for _, op := range []string{"text", "json", "walk", "dryrun"} {
				var cases []c11Case
				for _, k := range []int{0, 7, 150, 2000} {
					cases = append(cases, c11Case{Doc: []byte(doc), Op: op, Faults: ops.NoFaults(), Cancel: ops.Cancel{Kind: "atOffset", K: k}, Sched: ops.Sched{ReadChunk: []int{64, 1000, 4096}[k%3]}, Blocks: 1})
				}
				cases = append(cases, c11Case{Doc: []byte(doc), Op: op, Faults: ops.NoFaults(), Cancel: ops.Cancel{Kind: "pre"}, Sched: ops.Sched{ReadChunk: 512}, Blocks: 1})
				cases = append(cases, c11Case{Doc: []byte(bad), Op: op, Faults: ops.NoFaults(), Sched: ops.Sched{ReadChunk: 256}, Blocks: 1, Failing: 1})
				for _, c := range cases {
					n++
					if n%nshards != shard {
						continue
					}
					c11Record(col, c)
					if msg := c11Check(c); msg != "" {
						violation(t, "C11", "c11", c, msg)
					}
				}
			}
		}
	}
	col.Exhaustive = true
}

// every cancellation offset, reader offset, writer index and callback index of a panel of small documents
func TestC11Enumerate(t *testing.T) {
	col := coll("C11", "enumerate")
	docs := []string{
		"- a\n  - b\n- c\n- d\n  - e\n",
		"# a\n- b\n  - c\n# d\n- e\n# f\n",
		"- a\n  x bad\n- c\n  - \n- d\n  x bad\n- e\n  x bad\n",
		"\n- a\n\n- b\n  - c\n\n- d\n- e\n- f\n- g\n- h\n- i\n- j\n- k\n- l\n- m\n",
	}
	if thorough() {
		model.EnumForests(3, []string{"a", "b"}, func(f model.Forest) {
			g := append(f.Clone(), &model.T{Name: "x", Kids: []*model.T{{Name: "y"}}}, &model.T{Name: "z"})
			if hasDupRoots(g) {
				uniqRoots(g) // equally named roots make massive Mkdir fail with "path already exists" (known finding of C10)
			}
			docs = append(docs, model.Spell(g, model.Plain2))
		})
	}
	col.Rule = fmt.Sprintf("%d small documents x every operation x EVERY cancellation offset (cancel inside the Read that crosses byte k), EVERY reader-failure offset, EVERY writer-failure index and EVERY callback-failure index, plus pre-cancelled and expired-deadline contexts", len(docs))
	n := 0
	for di, d := range docs {
		for _, op := range c10Ops {
			base := c11Case{Doc: []byte(d), Op: op, Faults: ops.NoFaults(), Exts: []string{"b"}, Blocks: strings.Count(d, "\n- ") + 1, Failing: strings.Count(d, "bad") + strings.Count(d, "- \n")}
			if op == "verify" {
				base.Pre = []ops.FSEntry{{Path: "a/b", Kind: "d"}}
				base.Failing++ // the directory does not match: a verify error may legitimately win over the context's
			}
			var cases []c11Case
			for k := 0; k <= len(d); k++ {
				c := base
				c.Cancel = ops.Cancel{Kind: "atOffset", K: k}
				c.Sched.ReadChunk = []int{0, 1, 5}[k%3]
				cases = append(cases, c)
				c2 := base
				c2.Faults.ReaderFailAt = k
				c2.Faults.ReaderMode = k % 2
				cases = append(cases, c2)
			}
			for j := 0; j < 20; j++ {
				c := base
				if op == "walk" {
					c.Faults.CallbackFailAt = j
				} else {
					c.Faults.WriterFailAt = j
				}
				cases = append(cases, c)
				c2 := base
				if op == "walk" {
					c2.Cancel = ops.Cancel{Kind: "atCallback", K: j}
				} else {
					c2.Cancel = ops.Cancel{Kind: "atWrite", K: j}
				}
				cases = append(cases, c2)
			}
			for _, kind := range []string{"pre", "deadline"} {
				c := base
				c.Cancel = ops.Cancel{Kind: kind}
				cases = append(cases, c)
			}
			for _, c := range cases {
				n++
				if n%nshards != shard {
					continue
				}
				_ = di
				c11Record(col, c)
				if msg := c11Check(c); msg != "" {
					violation(t, "C11", "c11", c, msg)
				}
			}
		}
	}
	col.Exhaustive = true
}

// A delay (sleep or a burst of yields) injected at EVERY pipeline hand-over point in turn, for every operation, with and
// without a cancellation in the middle of the input and with failing blocks: the schedules that the free scheduler rarely
// produces (a slow stage next to fast ones) are forced one by one.
func TestC11HookSweep(t *testing.T) {
	col := coll("C11", "hook-sweep")
	docs := []string{
		"- a\n  - b\n- c\n- d\n  - e\n- f\n- g\n- h\n- i\n- j\n- k\n- l\n- m\n",
		"# a\n- b\n  - c\n# d\n- e\n# f\n# g\n- h\n",
		"- a\n  x bad\n- c\n  - \n- d\n  x bad\n- e\n  x bad\n- f\n  - ok\n",
	}
	col.Rule = fmt.Sprintf("every one of the %d verif hook points x {sleep 2 ms, 50 yields, sleep 2 ms on the first arrival only} x every operation x %d documents (one with four failing blocks) x {no cancellation, cancellation inside the Read crossing the middle of the input, pre-cancelled}; same oracle as the other parts (return, context error, completeness, no leak)", len(hookPoints), len(docs))
	n := 0
	for _, p := range hookPoints {
		for ai, act := range []ops.HookAct{{Action: "sleep", N: 2000}, {Action: "gosched", N: 50}, {Action: "sleep", N: 2000, First: 1}} {
			for _, op := range c10Ops {
				for di, d := range docs {
					for ci, cancel := range []ops.Cancel{{}, {Kind: "atOffset", K: len(d) / 2}, {Kind: "pre"}} {
						n++
						if n%nshards != shard {
							continue
						}
						if !thorough() && (n/nshards)%3 != 0 { // quick tier: a third of the grid
							continue
						}
						_, _, _ = ai, di, ci
						c := c11Case{Doc: []byte(d), Op: op, Faults: ops.NoFaults(), Cancel: cancel, Exts: []string{"b"},
							Sched: ops.Sched{Hook: map[string]ops.HookAct{p: act}, ReadChunk: 1 + n%7}, Failing: strings.Count(d, "bad") + strings.Count(d, "- \n"), Blocks: 5}
						if op == "verify" {
							c.Failing++ // nothing is materialised: a verify error may win
						}
						c11Record(col, c)
						if msg := c11Check(c); msg != "" {
							violation(t, "C11", "c11", c, msg)
						}
					}
				}
			}
		}
	}
	col.Exhaustive = true
}
