package props

import (
	"bytes"
	"encoding/json"
	"errors"
	"fmt"
	"io"
	"strings"

	"verif/harness/model"

	toml "github.com/pelletier/go-toml/v2"
	"gopkg.in/yaml.v3"
)

// Independent decoders for C04 (and for every check that needs to read an encoded output back).

type recJSON struct {
	Value    *string    `json:"value"`
	Children []*recJSON `json:"children"`
}

func (r *recJSON) tree() (*model.T, error) {
	if r == nil {
		return nil, errors.New("null record")
	}
	if r.Value == nil {
		return nil, errors.New("record without value")
	}
	t := &model.T{Name: *r.Value}
	for _, c := range r.Children {
		k, err := c.tree()
		if err != nil {
			return nil, err
		}
		t.Kids = append(t.Kids, k)
	}
	return t, nil
}

// decodeJSONLines requires one JSON value per line (C04: "several roots give one JSON value per line").
func decodeJSONLines(out []byte) (model.Forest, error) {
	var f model.Forest
	if len(out) == 0 {
		return f, nil
	}
	if out[len(out)-1] != '\n' {
		return nil, errors.New("output does not end with a newline")
	}
	for i, line := range strings.Split(strings.TrimSuffix(string(out), "\n"), "\n") {
		dec := json.NewDecoder(strings.NewReader(line))
		dec.DisallowUnknownFields()
		var r recJSON
		if err := dec.Decode(&r); err != nil {
			return nil, fmt.Errorf("line %d is not a JSON record: %v (%q)", i+1, err, line)
		}
		if _, err := dec.Token(); err != io.EOF {
			return nil, fmt.Errorf("line %d holds more than one JSON value", i+1)
		}
		t, err := r.tree()
		if err != nil {
			return nil, fmt.Errorf("line %d: %v", i+1, err)
		}
		f = append(f, t)
	}
	return f, nil
}

type recYAML struct {
	Value    *string    `yaml:"value"`
	Children []*recYAML `yaml:"children"`
}

func (r *recYAML) tree() (*model.T, error) {
	if r == nil {
		return nil, errors.New("null record")
	}
	if r.Value == nil {
		return nil, errors.New("record without value")
	}
	t := &model.T{Name: *r.Value}
	for _, c := range r.Children {
		k, err := c.tree()
		if err != nil {
			return nil, err
		}
		t.Kids = append(t.Kids, k)
	}
	return t, nil
}

func decodeYAMLDocs(out []byte) (model.Forest, error) {
	var f model.Forest
	dec := yaml.NewDecoder(bytes.NewReader(out))
	dec.KnownFields(true)
	for {
		var r recYAML
		err := dec.Decode(&r)
		if err == io.EOF {
			return f, nil
		}
		if err != nil {
			return nil, fmt.Errorf("YAML document %d: %v", len(f)+1, err)
		}
		t, err := r.tree()
		if err != nil {
			return nil, fmt.Errorf("YAML document %d: %v", len(f)+1, err)
		}
		f = append(f, t)
	}
}

type recTOML struct {
	Value    *string    `toml:"value"`
	Children []*recTOML `toml:"children"`
}

func (r *recTOML) tree() (*model.T, error) {
	if r == nil {
		return nil, errors.New("null record")
	}
	if r.Value == nil {
		return nil, errors.New("record without value")
	}
	t := &model.T{Name: *r.Value}
	for _, c := range r.Children {
		k, err := c.tree()
		if err != nil {
			return nil, err
		}
		t.Kids = append(t.Kids, k)
	}
	return t, nil
}

func decodeTOMLDoc(out []byte) (model.Forest, error) {
	var r recTOML
	dec := toml.NewDecoder(bytes.NewReader(out))
	dec.DisallowUnknownFields()
	if err := dec.Decode(&r); err != nil {
		return nil, fmt.Errorf("TOML: %v", err)
	}
	t, err := r.tree()
	if err != nil {
		return nil, err
	}
	return model.Forest{t}, nil
}

func decodeEncoded(format string, out []byte) (model.Forest, error) {
	switch format {
	case "json":
		return decodeJSONLines(out)
	case "yaml":
		return decodeYAMLDocs(out)
	case "toml":
		return decodeTOMLDoc(out)
	}
	return nil, fmt.Errorf("unknown format %q", format)
}
