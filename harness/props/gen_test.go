package props

import (
	"strconv"
	"strings"

	"verif/harness/model"

	"pgregory.net/rapid"
)

// ---- name pools -----------------------------------------------------------------------------------------------------

var poolTiny = []string{"a", "b", "ab", "ba", "c"}

var poolSyntax = []string{"- x", "a-b", "* y", "#h", " x", "x ", "  ", "+", "-", "*", "a\tb", "\tx", "a\rb", "- ", "x - y", "+ z",
	"a  b", "-x", "# h", "a#", "   lead3", "trail3   ", "\t", "-- a", "* * *", "1. a", "> q", "[x](y)", "`c`", "100%", "%s %d", "%[1]q",
	"--", "- -", "---", "**", "***", "___", "_ _ _", "C#", "#", "##", "# #", "#include", "a #", "=", "===",
	"lib\x1b[31mrary", "\x1b[32mok\x1b[0m", "\x1b[1;96mdir\x1b[22;0m", "\x1b[0m", "\x1b"}

var poolUnicode = []string{"日本語", "é", "é", "‮RTL", "a\u0085b", "a b", "\ufeffb", "😀", "ß", "Ω≈ç√", " ", "a　b",
	"ｆｕｌｌ", "́", "​", "한글", "🇯🇵", "a\ufffdb", "\ufffd", "a\ufeff"}

var poolInvalidUTF8 = []string{"\xff", "a\xc3", "\xed\xa0\x80", "\xc0\xaf", "ok\xfe\xffok", "\xf8\x88\x80\x80\x80"}

var poolPathy = []string{"a.go", "Makefile", ".hidden", "a..b", "...", "x y", "ü", "b.md", "README.md", "c.tar.gz", "dir", "o", "go",
	"main.go", "src", "a", "b", "lib.a", ".go", "x.gz", "d.md", "e", "f", "..a", "a.", strings.Repeat("n", 255), "日本", "file.o", "Makefile.in", "md", "100%", "%s", "%d.go", "a%vb", "%!s(MISSING)", "$HOME", "`id`", "a;b", "a&b", "a|b", "a*b", "a?b", "[a]", "{a,b}", "a\\b", "~", "-rf", "--help", "config", "config.yaml", "config-old", "config d", "a.b", "a-b", "a b", "a+b", "a,b", "a!b"}

var poolHostilePath = []string{"..", ".", "a/b", "/abs", "../x", "a/../../x", "../../escaped", "/", "a/", "/etc/passwd", "..\x00", "a\x00b",
	strings.Repeat("L", 256), "\xff\xfe", "./x", "x/.", "../..", "a//b", "~", "...",
	// valid single path elements that only LOOK like dot names: they must be created literally inside the target
	".. ", "..\t", ". ", " ..", "..  ", ".\t", "..\u00a0", "..."}

var poolEncoding = []string{`"`, `a"b`, `'`, `a: b`, `#c`, `a #c`, `\`, `a\nb`, `~`, `null`, `true`, `false`, `1e3`, `0x1f`, `123`, `1.5`, `- x`, `|`, `>`,
	`&a`, `*a`, `!t`, `%d`, `@x`, `[a]`, `{a}`, `? k`, `---`, `...`, `<html>&`, `'''`, `"""`, "a\tb", "\x00", "\x01", "\x1f", "\x7f", "a\x08b",
	"\u0085", " ", " ", "\ufeff", "é", "日本", `a, b`, `k=v`, `[[t]]`, `yes`, `No`, `on`, `0o17`, `.inf`, `2001-01-01`, `: x`, `x:`, `"q" 'r'`,
	` lead`, `trail `, `A`, `\x41`, "`", `$x`, `a\`, `{{`, `=`, `a = "b"`, "\x1b[31m", "😀", `a'b"c`,
	// texts that look like the escape sequences encoders emit (an encoder that post-processes its output trips over them)
	`C:\u003cdir`, `\u0026`, `\u003e`, `\u2028`, `\"`, `\\`, `\/`, `\x3c`, `&amp;`, `&lt;b&gt;`, `%3C`, `\U0001F600`, `\t`, `\r\n`, `\0`,
	// names wrapped in the colour sequences a terminal tool emits (green, bold cyan, red): they are part of the name
	"\x1b[32mok\x1b[0m", "\x1b[1;96mdir\x1b[22;0m", "\x1b[31mred\x1b[0m", "lib\x1b[31mrary", "\x1b[0m", "a\ufffdb", "\ufffd"}

// names whose text spells the path of another node ("a/a" beside a > a): implementations that key nodes by a joined path
// confuse them
var poolSlashTiny = []string{"a", "b", "a/a", "a/b", "b/a", "a/a/a", "a", "b", "/a", "a/"}

func sampled(p []string) *rapid.Generator[string] { return rapid.SampledFrom(p) }

// genFreeName draws an arbitrary one-line, non-empty string (valid UTF-8) that can be written as a list item.
func genFreeName() *rapid.Generator[string] {
	return rapid.Custom(func(t *rapid.T) string {
		s := rapid.StringN(1, 12, 40).Draw(t, "free")
		s = strings.NewReplacer("\n", "n", "\x0b", "v", "\x0c", "f").Replace(s)
		s = strings.TrimRight(s, "\r")
		if s == "" {
			s = "z"
		}
		return s
	})
}

// genLongName: a valid single-line name around the buffer sizes that row readers use (4096, 65536 bytes).
func genLongName() *rapid.Generator[string] {
	return rapid.Custom(func(t *rapid.T) string {
		n := rapid.SampledFrom([]int{4000, 4094, 4095, 4096, 4097, 5000, 9000, 20000, 32768, 33000, 40000, 60000}).Draw(t, "longLen")
		ch := rapid.SampledFrom([]string{"x", "ab", "é", "-"}).Draw(t, "longCh")
		return strings.Repeat(ch, n/len(ch))
	})
}

// withLongName replaces one drawn node's name by a long one.
func withLongName(t *rapid.T, f model.Forest) {
	n := f.Count()
	at := rapid.IntRange(0, n-1).Draw(t, "longAt")
	name := genLongName().Draw(t, "longName")
	i := 0
	f.Walk(func(_ int, ch []*model.T) {
		if i == at {
			ch[len(ch)-1].Name = name
		}
		i++
	})
}

// genNameMix draws a name from one of the pools (weights by repetition in the list).
func genNameMix(pools ...[]string) *rapid.Generator[string] {
	var gens []*rapid.Generator[string]
	for _, p := range pools {
		if p == nil {
			gens = append(gens, genFreeName())
		} else {
			gens = append(gens, sampled(p))
		}
	}
	return rapid.OneOf(gens...)
}

// ---- forests --------------------------------------------------------------------------------------------------------

type forestParams struct {
	maxNodes int
	maxDepth int
	oneRoot  bool
	names    *rapid.Generator[string]
}

// genForest draws an ordered forest as a pre-order depth sequence (every such sequence with d[0]=1 and
// d[i] <= d[i-1]+1 is exactly one ordered forest, so the generator is complete up to its size bounds) and a shape
// bias that forces the shapes the statements single out: chains, wide levels, many roots.
func genForest(p forestParams) *rapid.Generator[model.Forest] {
	return rapid.Custom(func(t *rapid.T) model.Forest {
		n := rapid.IntRange(1, p.maxNodes).Draw(t, "nodes")
		bias := rapid.IntRange(0, 4).Draw(t, "bias")
		dup := rapid.IntRange(0, 3).Draw(t, "dup") == 0
		depths := make([]int, n)
		depths[0] = 1
		for i := 1; i < n; i++ {
			lo, hi := 1, depths[i-1]+1
			if hi > p.maxDepth {
				hi = p.maxDepth
			}
			if p.oneRoot {
				lo = 2
				if hi < 2 {
					hi = 2
				}
			}
			d := rapid.IntRange(lo, hi).Draw(t, "d")
			switch bias {
			case 1: // chains
				if rapid.IntRange(0, 3).Draw(t, "b") != 0 {
					d = hi
				}
			case 2: // wide
				if rapid.IntRange(0, 2).Draw(t, "b") != 0 && depths[i-1] >= lo {
					d = depths[i-1]
				}
			case 3: // many roots / shallow
				if rapid.IntRange(0, 2).Draw(t, "b") != 0 {
					d = lo
				}
			}
			depths[i] = d
		}
		var f model.Forest
		var stack []*model.T
		for i := 0; i < n; i++ {
			name := p.names.Draw(t, "name")
			d := depths[i]
			stack = stack[:d-1]
			if dup && d > 1 && len(stack[d-2].Kids) > 0 && rapid.IntRange(0, 2).Draw(t, "dupnow") == 0 {
				name = stack[d-2].Kids[rapid.IntRange(0, len(stack[d-2].Kids)-1).Draw(t, "dupidx")].Name
			}
			node := &model.T{Name: name}
			if d == 1 {
				f = append(f, node)
			} else {
				stack[d-2].Kids = append(stack[d-2].Kids, node)
			}
			stack = append(stack, node)
		}
		return f
	})
}

// genDeepForest draws a spine of 18..90 levels with side leaves and small side subtrees at drawn levels (recursion depth,
// explicit-stack growth past 16/32/64 frames, long continuation prefixes).
func genDeepForest(names *rapid.Generator[string], oneRoot bool) *rapid.Generator[model.Forest] {
	return rapid.Custom(func(t *rapid.T) model.Forest {
		depth := rapid.SampledFrom([]int{18, 20, 33, 34, 35, 40, 64, 66, 70, 90}).Draw(t, "spine")
		root := &model.T{Name: names.Draw(t, "name")}
		cur := root
		for d := 2; d <= depth; d++ {
			next := &model.T{Name: names.Draw(t, "name")}
			switch rapid.IntRange(0, 5).Draw(t, "side") {
			case 0: // a leaf before the spine child
				cur.Kids = append(cur.Kids, &model.T{Name: names.Draw(t, "name")}, next)
			case 1: // a leaf after it (the spine child is not last)
				cur.Kids = append(cur.Kids, next, &model.T{Name: names.Draw(t, "name")})
			case 2: // a small subtree after it
				cur.Kids = append(cur.Kids, next, &model.T{Name: names.Draw(t, "name"), Kids: []*model.T{{Name: names.Draw(t, "name")}, {Name: names.Draw(t, "name")}}})
			default:
				cur.Kids = append(cur.Kids, next)
			}
			cur = next
		}
		// the deepest node has children of its own
		cur.Kids = append(cur.Kids, &model.T{Name: names.Draw(t, "name")}, &model.T{Name: names.Draw(t, "name")})
		f := model.Forest{root}
		if !oneRoot && rapid.Bool().Draw(t, "second") {
			f = append(f, &model.T{Name: names.Draw(t, "name"), Kids: []*model.T{{Name: names.Draw(t, "name")}}})
		}
		return f
	})
}

// ---- spellings ------------------------------------------------------------------------------------------------------

func genSpelling(headingOK bool) *rapid.Generator[model.Spelling] {
	return rapid.Custom(func(t *rapid.T) model.Spelling {
		var sp model.Spelling
		sp.Tab = rapid.Bool().Draw(t, "tab")
		if sp.Tab {
			sp.Unit = rapid.IntRange(1, 2).Draw(t, "unit")
		} else {
			sp.Unit = rapid.IntRange(1, 8).Draw(t, "unit")
		}
		sp.Bullets = rapid.StringOfN(rapid.SampledFrom([]rune("-*+")), 0, 4, -1).Draw(t, "bullets")
		if headingOK {
			sp.Heading = rapid.Bool().Draw(t, "heading")
		}
		if sp.Heading {
			sp.Hashes = rapid.SliceOfN(rapid.IntRange(1, 3), 0, 3).Draw(t, "hashes")
		}
		if rapid.Bool().Draw(t, "blanks") {
			sp.Blank = rapid.SliceOfN(rapid.SampledFrom([]int{0, 0, 0, 1, 2, 3, 4, 5, 6, 7, 8, 9, 10}), 1, 4).Draw(t, "blank")
			sp.Trail = rapid.IntRange(0, 10).Draw(t, "trail")
		}
		sp.CRLF = rapid.SliceOfN(rapid.Bool(), 0, 3).Draw(t, "crlf")
		sp.NoFinalN = rapid.Bool().Draw(t, "nofinal")
		return sp
	})
}

// ---- branch strings -------------------------------------------------------------------------------------------------

var branchPieces = []string{"", "+", "+--", "|", ":", "`--", "->", "|--", "|-", "--", "-", "||", "+-", ".", "..", "%d", "/", "\\-", "    ", " ", "\t", "└─ ", "║  ", "🌿", "├", "──", "x", "|   ", "\\", "%s", "*"}

func genBranch() *rapid.Generator[*model.Branch] {
	return rapid.Custom(func(t *rapid.T) *model.Branch {
		switch rapid.IntRange(0, 5).Draw(t, "bkind") {
		case 0:
			return nil // library defaults
		case 1:
			return &model.Branch{}
		}
		d := model.DefaultBranch
		pick := func(label, def string) string {
			if rapid.IntRange(0, 3).Draw(t, label+"def") == 0 {
				return def
			}
			return rapid.SampledFrom(branchPieces).Draw(t, label)
		}
		return &model.Branch{MidD: pick("midD", d.MidD), MidI: pick("midI", d.MidI), LastD: pick("lastD", d.LastD), LastI: pick("lastI", d.LastI)}
	})
}

func branchOrDefault(b *model.Branch) model.Branch {
	if b == nil {
		return model.DefaultBranch
	}
	return *b
}

// BranchPanel is crossed with the bounded-exhaustive forests.
var branchPanel = []*model.Branch{
	nil,
	{MidD: "+--", MidI: ":   ", LastD: "`--", LastI: "    "},
	{},
	{MidD: "├─🌿", MidI: "║ ", LastD: "└─🌿", LastI: "··"},
}

// ---- extension lists ------------------------------------------------------------------------------------------------

var extPool = []string{".go", ".md", "Makefile", "", "o", ".tar.gz", ".gz", "a", ".", "e", "go", "d", ".d.ts", "..", ".min.js", ".txt", ".c", ".h", ".yaml", ".json"}

// extSources: strings from which extension values are cut: the node names and the node paths (so that values such as
// "docs/README" or "/README" — a path tail across a separator — occur; they match no NAME and must change nothing).
func extSources(f model.Forest) []string {
	out := f.Names()
	model.Merge(f).Walk(func(_ int, chain []*model.T) {
		if len(chain) >= 2 {
			var parts []string
			for _, c := range chain {
				parts = append(parts, c.Name)
			}
			out = append(out, strings.Join(parts, "/"))
		}
	})
	return out
}

func genExts(names []string) *rapid.Generator[[]string] {
	return rapid.Custom(func(t *rapid.T) []string {
		n := rapid.IntRange(0, 4).Draw(t, "nexts")
		if rapid.IntRange(0, 5).Draw(t, "manyExts") == 0 {
			n = rapid.IntRange(8, 12).Draw(t, "nextsMany") // a long list (an implementation may index long lists differently)
		}
		var out []string
		for i := 0; i < n; i++ {
			if len(names) > 0 && rapid.IntRange(0, 2).Draw(t, "fromname") == 0 {
				nm := names[rapid.IntRange(0, len(names)-1).Draw(t, "nameidx")]
				rs := []rune(nm)
				cut := rapid.IntRange(0, len(rs)).Draw(t, "cut")
				out = append(out, string(rs[cut:]))
			} else {
				out = append(out, rapid.SampledFrom(extPool).Draw(t, "ext"))
			}
		}
		return out
	})
}

// ---- misc -----------------------------------------------------------------------------------------------------------

func forestClasses(f model.Forest) []string {
	var cl []string
	m := model.Merge(f)
	if len(f) >= 2 {
		cl = append(cl, "multi-root")
	}
	if f.HasMerge() {
		cl = append(cl, "merged-sibling")
	}
	if m.Depth() >= 3 {
		cl = append(cl, "depth>=3")
	}
	if m.Depth() >= 6 {
		cl = append(cl, "depth>=6")
	}
	if lastChildWithNonLastDescendants(m) {
		cl = append(cl, "last-child-with-nonlast-descendants")
	}
	if mergeChangesLast(f) {
		cl = append(cl, "merge-changes-last")
	}
	return cl
}

// a node that is its parent's last child and has at least two children (so one descendant is not last): the shape on
// which continuation strings of "last" ancestors matter.
func lastChildWithNonLastDescendants(f model.Forest) bool {
	found := false
	var rec func(t *model.T, isLast bool, depth int)
	rec = func(t *model.T, isLast bool, depth int) {
		if isLast && depth >= 2 && len(t.Kids) >= 2 {
			found = true
		}
		for i, k := range t.Kids {
			rec(k, i == len(t.Kids)-1, depth+1)
		}
	}
	for _, r := range f {
		rec(r, false, 1)
	}
	return found
}

// the last written child of some parent is a repeat of an earlier sibling, so after merging another node is last.
func mergeChangesLast(f model.Forest) bool {
	found := false
	var rec func(t *model.T)
	rec = func(t *model.T) {
		if n := len(t.Kids); n >= 2 {
			last := t.Kids[n-1].Name
			for _, k := range t.Kids[:n-1] {
				if k.Name == last {
					found = true
				}
			}
		}
		for _, k := range t.Kids {
			rec(k)
		}
	}
	for _, r := range f {
		rec(r)
	}
	return found
}

// uniqRoots makes root names distinct (and keeps them valid path elements of moderate length).
func uniqRoots(f model.Forest) {
	for i, r := range f {
		n := []rune(r.Name)
		if len(n) > 40 {
			n = n[:40]
		}
		r.Name = string(rune('A'+i%26)) + strconv.Itoa(i) + string(n)
	}
}

// genWideForest draws many small roots / wide levels so that the document exceeds 4 KiB, 8 KiB or 64 KiB.
func genWideForest(names *rapid.Generator[string]) *rapid.Generator[model.Forest] {
	return rapid.Custom(func(t *rapid.T) model.Forest {
		sizes := []int{400, 700, 1200}
		if thorough() {
			sizes = []int{400, 700, 1200, 2500, 6000}
		}
		n := rapid.SampledFrom(sizes).Draw(t, "wideNodes")
		kidsPerRoot := rapid.SampledFrom([]int{0, 1, 3, 40, 400}).Draw(t, "kidsPerRoot")
		var f model.Forest
		var cur *model.T
		for i := 0; i < n; i++ {
			nm := names.Draw(t, "name")
			if cur == nil || len(cur.Kids) >= kidsPerRoot {
				cur = &model.T{Name: nm + strconv.Itoa(i)}
				f = append(f, cur)
				continue
			}
			k := &model.T{Name: nm + strconv.Itoa(i)}
			if len(cur.Kids) > 0 && i%3 == 0 {
				last := cur.Kids[len(cur.Kids)-1]
				last.Kids = append(last.Kids, k)
			} else {
				cur.Kids = append(cur.Kids, k)
			}
		}
		return f
	})
}

// linkTarget: the target option is a relative name that is a symbolic link to the target directory ("t", "~t").
func linkTarget(t string) bool { return t == "short" || t == "tilde" }

// maybeMixed turns a heading spelling into the mixed notation one time in three: the first k roots stay list items, the
// later ones are # headings (simple mode only; in massive mode such documents are the known finding C10/massive-mixed-roots).
func maybeMixed(t *rapid.T, sp *model.Spelling, nroots int) {
	if sp.Heading && nroots >= 2 && rapid.IntRange(0, 2).Draw(t, "mixed") == 0 {
		sp.HeadingFrom = rapid.IntRange(1, nroots-1).Draw(t, "headingFrom")
	}
}

// genWideRepeat: one parent with W differently named children (W around 64, 128, 256), after which the name of ONE of them
// (any position) is written again with a child of its own: the repeated row must merge into the existing sibling.
func genWideRepeat() *rapid.Generator[model.Forest] {
	return rapid.Custom(func(t *rapid.T) model.Forest {
		w := rapid.SampledFrom([]int{31, 32, 33, 63, 64, 65, 66, 70, 127, 128, 129, 130, 256, 257, 300}).Draw(t, "w")
		r := &model.T{Name: "wide"}
		for i := 0; i < w; i++ {
			r.Kids = append(r.Kids, &model.T{Name: "c" + strconv.Itoa(i)})
		}
		nrep := rapid.IntRange(1, 3).Draw(t, "nrep")
		for j := 0; j < nrep; j++ {
			k := rapid.IntRange(0, w-1).Draw(t, "repeat")
			if rapid.IntRange(0, 3).Draw(t, "edge") == 0 {
				k = rapid.SampledFrom([]int{0, w - 1, w / 2, 63, 64, 65}).Draw(t, "edgeAt") % w
			}
			r.Kids = append(r.Kids, &model.T{Name: "c" + strconv.Itoa(k), Kids: []*model.T{{Name: "again" + strconv.Itoa(j)}}})
		}
		if rapid.IntRange(0, 2).Draw(t, "twin") == 0 {
			// two equally named wide parents at the same depth of one tree (a/wide, b/wide) with the same child names
			var clone func(n *model.T) *model.T
			clone = func(n *model.T) *model.T {
				c := &model.T{Name: n.Name}
				for _, k := range n.Kids {
					c.Kids = append(c.Kids, clone(k))
				}
				return c
			}
			return model.Forest{{Name: "top", Kids: []*model.T{{Name: "a", Kids: []*model.T{r}}, {Name: "b", Kids: []*model.T{clone(r)}}}}}
		}
		f := model.Forest{r}
		if rapid.Bool().Draw(t, "below") {
			// the wide parent one level down
			f = model.Forest{{Name: "top", Kids: []*model.T{r, {Name: "after"}}}}
		}
		return f
	})
}

// maybeNoGap leaves out the optional blank after the bullet on some lines, one time in four ("-name", "*\tname").
func maybeNoGap(t *rapid.T, sp *model.Spelling) {
	if rapid.IntRange(0, 3).Draw(t, "noGap") == 0 {
		sp.NoGap = rapid.SliceOfN(rapid.Bool(), 1, 4).Draw(t, "noGapPattern")
	}
}
