package props

import (
	"fmt"
	"path/filepath"
	"sort"
	"strings"
	"testing"

	"verif/harness/model"
	"verif/harness/ops"

	"pgregory.net/rapid"
)

// C06 — Mkdir creates exactly the tree: right paths, right kinds, nothing else (set algebra on snapshots).

type c06Case struct {
	Order int `json:"order,omitempty"` // ops.Opts.OptOrder: the option list rotated by Order/2 and reversed when odd
	Forest  model.Forest `json:"forest"` // distinct root names, valid path elements
	Exts    []string     `json:"exts"`
	HasExts bool         `json:"hasExts,omitempty"`
	Entry   string       `json:"entry"` // md | root
	Massive bool         `json:"massive,omitempty"`
	State   string       `json:"state"` // empty missing populated
	PreRoot []c06Pre     `json:"preRoot,omitempty"`
	Refusal string       `json:"refusal,omitempty"` // longname targetIsFile parentIsFile
	LongAt  int          `json:"longAt,omitempty"`
	Target  string       `json:"target,omitempty"` // "", rel, slash
	PreOps  []string     `json:"preOps,omitempty"` // From-Root: earlier operations on the same node tree
	Inodes  int          `json:"inodes,omitempty"` // >0: the target is a file system of its own with room for Inodes-1 entries; the creation beyond that fails (ENOSPC)
	Mode    uint32       `json:"mode,omitempty"`   // mode bits of the existing target directory (chmod notation, e.g. 01777); 0 = 0755
	Early   bool         `json:"early,omitempty"`  // the option values (incl. the relative target) are built under another working directory than the call runs in
}

type c06Pre struct {
	Root int    `json:"root"`
	Kind string `json:"kind"` // d | f
}

func init() { registerReplay("c06", c06Check) }

func nodePaths(f model.Forest) (paths []string, nodes []*model.T) {
	model.Merge(f).Walk(func(_ int, chain []*model.T) {
		var parts []string
		for _, c := range chain {
			parts = append(parts, c.Name)
		}
		paths = append(paths, strings.Join(parts, "/"))
		nodes = append(nodes, chain[len(chain)-1])
	})
	return
}

// targetRel extracts the entries below the target directory from a jail snapshot.
func targetRel(snap map[string]string) map[string]string {
	out := map[string]string{}
	for p, d := range snap {
		if strings.HasPrefix(p, ops.JailTarget+"/") {
			out[strings.TrimPrefix(p, ops.JailTarget+"/")] = d
		} else if i := strings.Index(p, "/"+ops.JailTarget+"/"); i >= 0 && !strings.Contains(p[:i], "/") {
			out[p[i+len(ops.JailTarget)+2:]] = d // snapshot of a chroot: <jail>/work/target/...
		}
	}
	return out
}

func c06Forest(c c06Case) model.Forest {
	f := c.Forest.Clone()
	if c.Refusal == "longname" {
		i := 0
		f.Walk(func(_ int, ch []*model.T) {
			if i == c.LongAt {
				ch[len(ch)-1].Name = strings.Repeat("L", 256)
			}
			i++
		})
	}
	return f
}

func c06Check(c c06Case) string {
	f := c06Forest(c)
	cs := ops.NewCase("mkdir", c.Entry)
	if c.Entry == "md" {
		cs.Doc = []byte(model.Spell(f, model.Plain2))
	} else {
		cs.Root = &f[0].Name
		cs.Prog = preorderProgram(model.Merge(f)[0])
		cs.PreOps = c.PreOps
	}
	cs.Opts.Exts = c.Exts
	cs.Opts.OptOrder = c.Order
	cs.Opts.HasExts = c.HasExts
	cs.Opts.Massive = c.Massive
	cs.Opts.TargetOpt = c.Target
	cs.Opts.EarlyOpts = c.Early
	cs.FS = &ops.FSSpec{InodeLimit: c.Inodes}
	if c.Inodes == 0 && c.State != "missing" {
		cs.FS.TargetMode = c.Mode
	}
	switch c.State {
	case "missing":
		cs.FS.TargetMissing = true
	case "populated":
		cs.FS.Pre = []ops.FSEntry{{Path: "~unrelated/keep.txt", Kind: "f", Data: "k"}, {Path: "~file.txt", Kind: "f", Data: "x"}, {Path: "~dir/sub", Kind: "d"}}
	}
	dangling, looped := false, false
	for _, p := range c.PreRoot {
		if p.Root < len(f) {
			e := ops.FSEntry{Path: f[p.Root].Name, Kind: p.Kind, Data: "pre"}
			if p.Kind == "loop" {
				// a symbolic link to itself: the entry exists, but Stat fails with ELOOP
				e.Kind, e.Data = "l", filepath.Base(f[p.Root].Name)
				looped = true
			}
			if p.Kind == "dl" {
				// a dangling symbolic link holds the root's name: os.Stat says "does not exist", mkdir(2) says EEXIST
				e.Kind, e.Data = "l", "../no/such/place"
				dangling = true
			}
			cs.FS.Pre = append(cs.FS.Pre, e)
		}
	}
	switch c.Refusal {
	case "targetIsFile":
		cs.FS = &ops.FSSpec{TargetIsFile: true}
	case "parentIsFile":
		cs.FS = &ops.FSSpec{ParentIsFile: true}
	}
	var res *ops.Result
	if c.Massive {
		res = pool("plain").Run(&cs)
	} else {
		res = ops.DefaultEnv.Run(&cs)
	}
	head := fmt.Sprintf("forest %s exts=%q entry=%s massive=%v state=%s pre=%v refusal=%s inodes=%d\n", f, c.Exts, c.Entry, c.Massive, c.State, c.PreRoot, c.Refusal, c.Inodes)
	if res.Infra != "" {
		return ""
	}
	if cr := res.Crashed(); cr != "" {
		return head + cr
	}
	created, removed, changed := ops.Diff(res.Before, res.After)
	if len(removed)+len(changed) != 0 {
		return fmt.Sprintf("%ssomething that existed before was removed %v or changed %v", head, removed, changed)
	}
	paths, nodes := nodePaths(f)
	expected := map[string]*model.T{}
	for i, p := range paths {
		expected[ops.JailTarget+"/"+p] = nodes[i]
	}
	if c.State == "missing" {
		expected[ops.JailTarget] = nil
	}
	switch {
	case len(c.PreRoot) > 0 && c.Refusal == "" && looped && !dangling:
		// the root's name is taken (by an entry that cannot even be followed): the call must fail, and without the massive
		// option before anything has been made (the existence of the roots is checked first)
		if res.Err.Nil {
			return fmt.Sprintf("%sa root's name is held by a symbolic link to itself, but the call reported success", head)
		}
		if len(created) != 0 && !c.Massive {
			return fmt.Sprintf("%sa root already exists (a symbolic link to itself) but entries were created: %v (error: %s)", head, created, res.Err.Text)
		}
	case len(c.PreRoot) > 0 && c.Refusal == "" && dangling:
		// whether the library calls this "path exists" or passes the OS error on is its choice; success it is not:
		// the root cannot be made (a root with children) or is not what the tree says (a directory / an empty file)
		if res.Err.Nil {
			for _, p := range c.PreRoot {
				if p.Kind == "dl" && p.Root < len(f) {
					if d := res.After[ops.JailTarget+"/"+f[p.Root].Name]; ops.Kind(d) == "l" {
						return fmt.Sprintf("%sthe name of root %q is held by a dangling symbolic link; the call reported success and the link is still there (%s): the node was not created", head, f[p.Root].Name, d)
					}
				}
			}
		}
	case len(c.PreRoot) > 0 && c.Refusal == "":
		if !res.Err.IsExistPath {
			return fmt.Sprintf("%sa root already exists: want the path-exists error, got %q", head, errOrNil(res))
		}
		if len(created) != 0 && !c.Massive {
			return fmt.Sprintf("%sa root already exists but entries were created: %v", head, created)
		}
	case c.Inodes > 0 && c.Inodes-1 < len(paths):
		if res.Err.Nil {
			return fmt.Sprintf("%sthe target file system has room for %d entries, the tree needs %d: the failing creation must be returned as an error, but the call reported success; created %v", head, c.Inodes-1, len(paths), created)
		}
		if res.Err.IsExistPath {
			return fmt.Sprintf("%sthe file system ran out of room; the error says a path already exists: %s", head, res.Err.Text)
		}
		for _, p := range created {
			n, ok := expected[p]
			if !ok {
				return fmt.Sprintf("%sstray entry %q created (not a node path)", head, p)
			}
			if k := ops.Kind(res.After[p]); n != nil && (k == "f") != model.IsFile(n, c.Exts) {
				return fmt.Sprintf("%s%q was created as %q", head, p, k)
			}
		}
	case c.Refusal != "":
		if res.Err.Nil {
			return fmt.Sprintf("%sthe filesystem must refuse this tree (%s) but the call reported success; created %v", head, c.Refusal, created)
		}
		for _, p := range created {
			if _, ok := expected[p]; !ok {
				return fmt.Sprintf("%sstray entry %q created (not a node path)", head, p)
			}
		}
	default:
		if !res.Err.Nil {
			return fmt.Sprintf("%smkdir into a target without any of the roots failed: %s", head, res.Err.Text)
		}
		var want []string
		for p := range expected {
			want = append(want, p)
		}
		sort.Strings(want)
		if strings.Join(created, "\n") != strings.Join(want, "\n") {
			return fmt.Sprintf("%snewly existing entries differ from the node paths:\ncreated: %q\nwant:    %q", head, created, want)
		}
		for p, n := range expected {
			if n == nil {
				continue
			}
			d := res.After[p]
			if model.IsFile(n, c.Exts) {
				if ops.Kind(d) != "f" || ops.FileSize(d) != 0 {
					return fmt.Sprintf("%s%q must be an empty regular file, is %s", head, p, d)
				}
			} else if ops.Kind(d) != "d" {
				return fmt.Sprintf("%s%q must be a directory, is %s", head, p, d)
			}
		}
	}
	return ""
}

func c06Record(col *collector, c c06Case) {
	f := c06Forest(c)
	_, nodes := nodePaths(f)
	files, dirLeaves, innerMatch, whole := 0, 0, false, false
	for _, n := range nodes {
		if model.IsFile(n, c.Exts) {
			files++
			for _, e := range c.Exts {
				if e == n.Name && e != "" {
					whole = true
				}
			}
		} else if len(n.Kids) == 0 {
			dirLeaves++
		} else {
			for _, e := range c.Exts {
				if strings.HasSuffix(n.Name, e) {
					innerMatch = true
				}
			}
		}
	}
	cl := []string{"entry:" + c.Entry, "state:" + c.State}
	if c.Massive {
		cl = append(cl, "massive")
	}
	if innerMatch {
		cl = append(cl, "ext-matches-inner-node")
	}
	if whole {
		cl = append(cl, "whole-name-suffix")
	}
	if len(c.Exts) == 0 {
		cl = append(cl, "empty-ext-list")
	}
	for _, e := range c.Exts {
		if e == "" {
			cl = append(cl, "empty-string-extension")
		}
	}
	if len(f) > 0 && model.IsFile(model.Merge(f)[0], c.Exts) {
		cl = append(cl, "root-is-file")
	}
	for _, p := range c.PreRoot {
		cl = append(cl, "preexisting-root-"+p.Kind)
	}
	if c.Refusal != "" {
		cl = append(cl, "refusal:"+c.Refusal)
	}
	if len(f) >= 9 {
		cl = append(cl, "roots>=9")
	}
	if c.Inodes > 0 {
		cl = append(cl, "file-system-runs-full")
	}
	if c.Mode != 0 {
		cl = append(cl, fmt.Sprintf("target-mode:%o", c.Mode))
	}
	if c.Target != "" {
		cl = append(cl, "target:"+c.Target)
	}
	nontrivial := (files >= 1 && dirLeaves >= 1 && model.Merge(f).Depth() >= 2) || len(c.PreRoot) > 0 || c.Refusal != "" || c.Inodes > 0
	col.eval(nontrivial, hash64(fmt.Sprint(f, c.Exts, c.HasExts, c.Entry, c.Massive, c.State, c.PreRoot, c.Refusal, c.LongAt, c.Target, c.PreOps, c.Inodes, c.Mode, c.Early, c.Order)), cl...)
	col.sample(func() any { return c })
}

func c06Gen() *rapid.Generator[c06Case] {
	return rapid.Custom(func(t *rapid.T) c06Case {
		entry := rapid.SampledFrom([]string{"md", "md", "root"}).Draw(t, "entry")
		f := genForest(forestParams{maxNodes: 14, maxDepth: 7, names: sampled(validElemPool()), oneRoot: entry == "root"}).Draw(t, "forest")
		if hasDupRoots(f) {
			uniqRoots(f)
		}
		if entry == "md" && rapid.IntRange(0, 5).Draw(t, "manyRoots") == 0 {
			// 9..40 distinctly named roots (hidden names, names that look like options or shell syntax) with small subtrees
			pool := append([]string{".github", ".gitignore", ".env", ".config", "..a", ".go", "~", "~build", "-rf", "--help", "a b", "README.md", "Makefile", "$HOME", "%s"}, validElemPool()...)
			seen := map[string]bool{}
			f = nil
			for _, nm := range rapid.Permutation(pool).Draw(t, "rootNames")[:rapid.IntRange(9, 40).Draw(t, "nroots")] {
				if seen[nm] || len(nm) > 100 {
					continue
				}
				seen[nm] = true
				r := &model.T{Name: nm}
				if sub := rapid.IntRange(0, 3).Draw(t, "sub"); sub > 0 {
					r.Kids = genForest(forestParams{maxNodes: sub, maxDepth: 3, names: sampled(validElemPool())}).Draw(t, "subtree")
				}
				f = append(f, r)
			}
			if rapid.Bool().Draw(t, "hiddenFirst") {
				for i, r := range f {
					if strings.HasPrefix(r.Name, ".") {
						f[0], f[i] = f[i], f[0]
						break
					}
				}
			}
		}
		c := c06Case{Forest: f, Entry: entry, Exts: genExts(extSources(f)).Draw(t, "exts")}
		c.HasExts = rapid.Bool().Draw(t, "hasExts")
		c.Order = rapid.IntRange(0, 9).Draw(t, "optOrder")
		if entry == "root" && rapid.Bool().Draw(t, "withPreOps") {
			c.PreOps = rapid.SliceOfN(rapid.SampledFrom(preOpPool), 1, 2).Draw(t, "preOps")
		}
		c.Massive = rapid.IntRange(0, 3).Draw(t, "massive") == 0
		if rapid.IntRange(0, 3).Draw(t, "oddMode") == 0 {
			c.Mode = rapid.SampledFrom([]uint32{0o700, 0o1777, 0o2775, 0o711, 0o777}).Draw(t, "mode")
		}
		c.State = rapid.SampledFrom([]string{"empty", "empty", "missing", "populated"}).Draw(t, "state")
		c.Target = rapid.SampledFrom([]string{"", "", "rel", "slash", "short", "tilde", "dotdot"}).Draw(t, "target")
		if linkTarget(c.Target) && c.State == "missing" {
			c.Target = "rel" // the one-character name is a link to the target and needs it to exist
		}
		c.Early = c.Target != "" && c.Target != "slash" && rapid.IntRange(0, 2).Draw(t, "earlyOpts") == 0
		switch rapid.IntRange(0, 5).Draw(t, "scenario") {
		case 0:
			if c.State != "missing" {
				// mostly one or two pre-existing roots (which one matters), sometimes many
				n := rapid.SampledFrom([]int{1, 1, 1, 2, 2, len(f)}).Draw(t, "npre")
				if n > len(f) {
					n = len(f)
				}
				for i := 0; i < n; i++ {
					c.PreRoot = append(c.PreRoot, c06Pre{Root: rapid.IntRange(0, len(f)-1).Draw(t, "preRoot"), Kind: rapid.SampledFrom([]string{"d", "f", "d", "f", "dl", "loop"}).Draw(t, "preKind")})
				}
			}
		case 1:
			if mountOK() && rapid.IntRange(0, 2).Draw(t, "enospc") == 0 {
				// the k-th creation fails for lack of room (k anywhere from the first to one past the last)
				c.Inodes = 1 + rapid.IntRange(0, model.Merge(f).Count()).Draw(t, "room")
				c.State = "empty"
				c.PreRoot = nil
				if linkTarget(c.Target) || c.Target == "dotdot" {
					c.Target = ""
				}
				return c
			}
			c.Refusal = rapid.SampledFrom([]string{"longname", "targetIsFile", "parentIsFile"}).Draw(t, "refusal")
			c.LongAt = rapid.IntRange(0, f.Count()-1).Draw(t, "longAt")
			if c.Refusal == "longname" && rapid.Bool().Draw(t, "longIsFile") {
				c.Exts, c.HasExts = append(c.Exts, "L"), true // a childless over-long node is then a FILE whose creation fails
			}
			c.State = "empty"
			if linkTarget(c.Target) || c.Target == "dotdot" {
				c.Target = ""
			}
		}
		return c
	})
}

func TestC06Random(t *testing.T) {
	col := coll("C06", "random")
	col.Rule = "rapid: forests with distinct roots and valid path-element names x extension lists (pool + suffixes cut from the generated names) x entry x {simple, massive} x target state (empty, missing, populated) x target spelling x scenario (success | subset of roots pre-existing as file/dir | OS refusal: 256-byte name at a drawn node, target is a file, target's parent is a file); non-trivial = >=1 file node and >=1 directory leaf at depth>=2, or a pre-existing/refusal scenario"
	rapid.Check(t, func(rt *rapid.T) {
		c := c06Gen().Draw(rt, "case")
		c06Record(col, c)
		if msg := c06Check(c); msg != "" {
			violation(rt, "C06", "c06", c, msg)
		}
	})
}

func TestC06Exhaustive(t *testing.T) {
	col := coll("C06", "exhaustive")
	maxN := pick(4, 6)
	extLists := [][]string{nil, {"b"}, {"a", "b"}, {""}, {"ab", "b"}, {"a", "ab"}, {"b", "ab", "b"}}
	col.Rule = fmt.Sprintf("all forests <=%d nodes over {a,b,ab} with distinct roots x %d extension lists x {md, root(single root)} x rotating target state, plus every single pre-existing root (file and dir)", maxN, len(extLists))
	i, rot := 0, 0
	model.EnumForests(maxN, []string{"a", "b", "ab"}, func(f model.Forest) {
		if hasDupRoots(f) {
			return
		}
		i++
		if i%nshards != shard {
			return
		}
		for _, exts := range extLists {
			entries := []string{"md"}
			if len(f) == 1 {
				entries = append(entries, "root")
			}
			for _, e := range entries {
				rot++
				c := c06Case{Forest: f, Exts: exts, Entry: e, State: []string{"empty", "missing", "populated"}[rot%3], Massive: rot%7 == 0}
				c06Record(col, c)
				if msg := c06Check(c); msg != "" {
					violation(t, "C06", "c06", c, msg)
				}
				if rot%3 == 0 {
					for r := range f {
						c2 := c06Case{Forest: f, Exts: exts, Entry: e, State: "populated", PreRoot: []c06Pre{{Root: r, Kind: []string{"d", "f"}[rot/3%2]}}}
						if e == "root" && r > 0 {
							continue
						}
						c06Record(col, c2)
						if msg := c06Check(c2); msg != "" {
							violation(t, "C06", "c06", c2, msg)
						}
					}
				}
			}
		}
	})
	col.Exhaustive = true
}

// The filesystem as a fault source: the target is a tmpfs with room for exactly k entries, for every k from 0 to the
// number of node paths. The creation that does not fit fails with ENOSPC and must be reported.
func TestC06FsFault(t *testing.T) {
	col := coll("C06", "fs-fault")
	if !mountOK() {
		col.note("this process may not mount a tmpfs: part not executed")
		return
	}
	maxN := pick(4, 5)
	col.Rule = fmt.Sprintf("all forests <=%d nodes over {a,b} with distinct roots x extension lists {none, b} x {md, root(single root)} x room for k entries in the target file system, k = 0..number of node paths (the k+1-th creation fails with ENOSPC) x rotating simple/massive; oracle: error iff k < number of node paths, everything created is a node path of the right kind, nothing else is touched; non-trivial = always", maxN)
	i, rot := 0, 0
	model.EnumForests(maxN, []string{"a", "b"}, func(f model.Forest) {
		if hasDupRoots(f) {
			return
		}
		i++
		if i%nshards != shard {
			return
		}
		need := model.Merge(f).Count()
		for _, exts := range [][]string{nil, {"b"}} {
			entries := []string{"md"}
			if len(f) == 1 {
				entries = append(entries, "root")
			}
			for _, e := range entries {
				for k := 0; k <= need; k++ {
					rot++
					c := c06Case{Forest: f, Exts: exts, HasExts: exts != nil, Entry: e, State: "empty", Massive: rot%5 == 0, Inodes: k + 1}
					c06Record(col, c)
					if msg := c06Check(c); msg != "" {
						violation(t, "C06", "c06", c, msg)
					}
				}
			}
		}
	})
	col.Exhaustive = true
}
