package props

import (
	"fmt"
	"path/filepath"
	"sort"
	"strings"
	"testing"
	"unicode/utf8"

	"verif/harness/model"
	"verif/harness/ops"

	"pgregory.net/rapid"
)

// C08 — Verify reports exactly the differences between the tree and the directory; it never changes the filesystem;
// a tree just created by Mkdir with any extension list verifies strictly.

type c08Case struct {
	Forest   model.Forest  `json:"forest"` // distinct roots, valid path elements without tab/newline
	Entry    string        `json:"entry"`  // md | root
	Strict   bool          `json:"strict"`
	Target   string        `json:"target"` // "", rel, slash
	Massive  bool          `json:"massive,omitempty"`
	Drop     []int         `json:"drop,omitempty"`     // pre-order indexes of node paths removed (with their subtrees)
	AsFile   []int         `json:"asFile,omitempty"`   // pre-order indexes of node paths present as regular files
	Hard     bool          `json:"hard,omitempty"`     // node paths present as files are hard links of one another (and of extra files of kind "h")
	Extra    []ops.FSEntry `json:"extra,omitempty"`    // extra entries, relative to the target
	History  string        `json:"history,omitempty"`  // "", mkdir (state produced by Mkdir of the same forest with Exts)
	NoTarget bool          `json:"noTarget,omitempty"` // the target directory itself does not exist
	RootLink bool          `json:"rootLink,omitempty"` // every root directory is a symbolic link to a directory kept beside the roots
	Refusal  string        `json:"refusal,omitempty"`  // longroot: a root name of 256 bytes; targetIsFile: the target path is a regular file
	Exts     []string      `json:"exts,omitempty"`
	PreOps   []string      `json:"preOps,omitempty"` // root entry: earlier operations on the same node tree ...
	Again    int           `json:"again,omitempty"`  // ... which then lacked its last Again nodes (added afterwards, before the verified call)
	FsRoot   string        `json:"fsRoot,omitempty"` // non-empty: the target directory is the file system root of a chrooted worker, given as this option value ("/", "//", "/.", "/x/..")
}

func init() { registerReplay("c08", c08Check) }

func c08State(c c08Case) []ops.FSEntry {
	drop := map[int]bool{}
	for _, d := range c.Drop {
		drop[d] = true
	}
	asFile := map[string]bool{}
	paths, _ := nodePaths(c.Forest)
	for _, i := range c.AsFile {
		if i < len(paths) {
			asFile[paths[i]] = true
		}
	}
	var pre []ops.FSEntry
	var filePrefixes []string
	for _, e := range materialize(c.Forest, nil, drop) {
		skip := false
		for _, fp := range filePrefixes {
			if strings.HasPrefix(e.Path, fp+"/") {
				skip = true
			}
		}
		if skip {
			continue
		}
		if asFile[e.Path] {
			e.Kind = "f"
			if c.Hard {
				e.Kind = "h" // regular files that are further names of one file
			}
			filePrefixes = append(filePrefixes, e.Path)
		}
		pre = append(pre, e)
	}
	for _, x := range c.Extra {
		skip := false
		for _, fp := range filePrefixes {
			if strings.HasPrefix(x.Path, fp+"/") || x.Path == fp {
				skip = true
			}
		}
		if !skip {
			pre = append(pre, x)
		}
	}
	return pre
}

// parseVerifyError splits the documented error text into its two path lists.
func parseVerifyError(text string) (extra, missing []string, ok bool) {
	var cur *[]string
	for _, l := range strings.Split(text, "\n") {
		switch {
		case l == "Extra paths exist:":
			cur = &extra
		case l == "Required paths does not exist:":
			cur = &missing
		case strings.HasPrefix(l, "\t") && cur != nil:
			*cur = append(*cur, strings.TrimPrefix(l, "\t"))
		default:
			return nil, nil, false
		}
	}
	return extra, missing, true
}

func c08Check(c c08Case) string {
	f := c.Forest
	var mkRes *ops.Result
	cs := ops.NewCase("verify", c.Entry)
	if c.Entry == "md" {
		cs.Doc = []byte(model.Spell(f, model.Plain2))
	} else {
		cs.Root = &f[0].Name
		cs.Prog = preorderProgram(model.Merge(f)[0])
		cs.PreOps = c.PreOps
		if c.Again > 0 && c.Again < len(cs.Prog) && len(c.PreOps) > 0 {
			cs.MidProg = cs.Prog[len(cs.Prog)-c.Again:]
			cs.Prog = cs.Prog[:len(cs.Prog)-c.Again]
		}
	}
	cs.Opts.Strict = c.Strict
	cs.Opts.TargetOpt = c.Target
	cs.Opts.Massive = c.Massive
	head := fmt.Sprintf("forest %s entry=%s strict=%v target=%q massive=%v drop=%v asFile=%v extra=%v history=%s exts=%q\n", f, c.Entry, c.Strict, c.Target, c.Massive, c.Drop, c.AsFile, c.Extra, c.History, c.Exts)
	if c.History == "mkdir" {
		// state produced by gtree's own Mkdir: run it, read the snapshot back, and hand it to verify as the pre-state
		mk := ops.NewCase("mkdir", "md")
		mk.Doc = []byte(model.Spell(f, model.Plain2))
		mk.Opts.Exts = c.Exts
		mk.FS = &ops.FSSpec{}
		mkRes = ops.DefaultEnv.Run(&mk)
		if mkRes.Infra != "" {
			return ""
		}
		if !mkRes.Err.Nil || mkRes.Crashed() != "" {
			return head + "Mkdir of the same forest failed: " + mkRes.Err.Text + mkRes.Crashed()
		}
		var pre []ops.FSEntry
		tr := targetRel(mkRes.After)
		keys := make([]string, 0, len(tr))
		for p := range tr {
			keys = append(keys, p)
		}
		sort.Strings(keys)
		for _, p := range keys {
			pre = append(pre, ops.FSEntry{Path: p, Kind: ops.Kind(tr[p])})
		}
		cs.FS = &ops.FSSpec{Pre: pre}
	} else {
		cs.FS = &ops.FSSpec{Pre: c08State(c)}
	}
	if c.NoTarget {
		cs.FS = &ops.FSSpec{TargetMissing: true}
	}
	switch c.Refusal {
	case "targetIsFile":
		cs.FS = &ops.FSSpec{TargetIsFile: true}
	case "longroot":
		long := strings.Repeat("L", 256)
		if c.Entry == "md" {
			cs.Doc = append([]byte("- "+long+"\n  - k\n"), cs.Doc...)
		} else {
			cs.Root = &long
		}
	}
	if c.RootLink && c.History == "" && !c.NoTarget {
		// <root> -> ~real/<root>: the node paths exist through the link; what is stored beside the roots is nobody's extra
		var pre []ops.FSEntry
		linked := map[string]bool{}
		for _, e := range cs.FS.Pre {
			root := e.Path
			if i := strings.Index(root, "/"); i >= 0 {
				root = root[:i]
			}
			isRoot := false
			for _, r := range f {
				if r.Name == root {
					isRoot = true
				}
			}
			if !isRoot || (e.Path == root && e.Kind != "d") {
				pre = append(pre, e)
				continue
			}
			if !linked[root] {
				linked[root] = true
				pre = append(pre, ops.FSEntry{Path: root, Kind: "l", Data: "~real/" + root})
			}
			pre = append(pre, ops.FSEntry{Path: "~real/" + e.Path, Kind: e.Kind, Data: e.Data})
		}
		cs.FS.Pre = pre
	}
	var res *ops.Result
	if c.FsRoot != "" {
		cs.Opts.TargetOpt = "fsroot"
		cs.Opts.TargetRaw = c.FsRoot
		res = pool("chroot").Run(&cs)
	} else if c.Massive {
		res = pool("plain").Run(&cs)
	} else {
		res = ops.DefaultEnv.Run(&cs)
	}
	if res.Infra != "" {
		return ""
	}
	if cr := res.Crashed(); cr != "" {
		return head + cr
	}
	if cr, rm, ch := ops.Diff(res.Before, res.After); len(cr)+len(rm)+len(ch) != 0 {
		return fmt.Sprintf("%sverify changed the filesystem: created %v removed %v changed %v", head, cr, rm, ch)
	}
	if c.Refusal != "" {
		// the filesystem cannot even hold these paths, so they do not exist: never nil
		if res.Err.Nil {
			return fmt.Sprintf("%snode paths cannot exist (%s) but verify returned nil", head, c.Refusal)
		}
		return ""
	}
	// differences computed from the snapshot
	state := targetRel(res.Before)
	if c.FsRoot != "" {
		state = res.Before // the snapshot of the chroot is the state below "/"
	}
	if c.RootLink {
		// read the state through the root links
		through := map[string]string{}
		for p, d := range state {
			switch {
			case strings.HasPrefix(p, "~real/"):
				through[strings.TrimPrefix(p, "~real/")] = d
			case p == "~real" || ops.Kind(d) == "l":
			default:
				through[p] = d
			}
		}
		state = through
	}
	merged := model.Merge(f)
	type rootDiff struct{ missing, extra map[string]bool }
	diffs := make([]rootDiff, len(merged))
	allMissing, allExtra := map[string]bool{}, map[string]bool{}
	anyMissing, anyExtra := false, false
	for ri, r := range merged {
		d := rootDiff{map[string]bool{}, map[string]bool{}}
		np := map[string]bool{}
		model.Forest{r}.Walk(func(_ int, chain []*model.T) {
			var parts []string
			for _, x := range chain {
				parts = append(parts, x.Name)
			}
			p := strings.Join(parts, "/")
			np[p] = true
			if _, ok := state[p]; !ok {
				d.missing[p] = true
				allMissing[p] = true
				anyMissing = true
			}
		})
		for p := range state {
			if (p == r.Name || strings.HasPrefix(p, r.Name+"/")) && !np[p] {
				d.extra[p] = true
				allExtra[p] = true
				anyExtra = true
			}
		}
		diffs[ri] = d
	}
	wantNil := !anyMissing && (!c.Strict || !anyExtra)
	if c.History == "mkdir" && !res.Err.Nil {
		return fmt.Sprintf("%sa tree just created by Mkdir (extensions %q) does not verify: %s", head, c.Exts, res.Err.Text)
	}
	if wantNil != res.Err.Nil {
		return fmt.Sprintf("%sverdict: got %q, but missing=%v extra=%v (strict=%v)", head, errOrNil(res), keysOf(allMissing), keysOf(allExtra), c.Strict)
	}
	if res.Err.Nil {
		return ""
	}
	extra, missing, ok := parseVerifyError(res.Err.Text)
	if !ok {
		return fmt.Sprintf("%sthe error is not in the documented two-list form: %q", head, res.Err.Text)
	}
	// printed paths are join(targetDir, node path); map them back to target-relative paths
	prefix := ""
	switch c.Target {
	case "rel":
		prefix = "target/"
	case "default":
		prefix = ""
	default:
		prefix = "" // absolute: strip everything up to ".../work/target/"
	}
	rel := func(p string) string {
		if c.FsRoot != "" {
			return strings.TrimLeft(filepath.ToSlash(filepath.Clean(p)), "/")
		}
		if c.Target == "rel" {
			return strings.TrimPrefix(filepath.ToSlash(p), prefix)
		}
		if c.Target == "short" {
			return strings.TrimPrefix(filepath.ToSlash(p), "t/")
		}
		if c.Target == "tilde" {
			return strings.TrimPrefix(filepath.ToSlash(p), "~t/")
		}
		if i := strings.Index(p, "/"+ops.JailTarget+"/"); i >= 0 {
			return p[i+len("/"+ops.JailTarget+"/"):]
		}
		return p
	}
	gotMissing, gotExtra := map[string]bool{}, map[string]bool{}
	for _, p := range missing {
		gotMissing[rel(p)] = true
		if !allMissing[rel(p)] {
			return fmt.Sprintf("%sthe error lists %q as missing but it exists (or is not a node path)", head, p)
		}
	}
	for _, p := range extra {
		gotExtra[rel(p)] = true
		if !allExtra[rel(p)] {
			return fmt.Sprintf("%sthe error lists %q as extra but it is a node path or does not exist", head, p)
		}
	}
	if c.Massive {
		return "" // which root is reported depends on the schedule; soundness is all that can be required
	}
	for ri, d := range diffs {
		if len(d.missing) == 0 && (!c.Strict || len(d.extra) == 0) {
			continue
		}
		// first root that differs: exactly its missing paths and (strict) exactly its extra entries
		if fmt.Sprint(keysOf(gotMissing)) != fmt.Sprint(keysOf(d.missing)) {
			return fmt.Sprintf("%sroot %d (%q) is the first that differs; missing paths listed %v, want exactly %v", head, ri, merged[ri].Name, keysOf(gotMissing), keysOf(d.missing))
		}
		if c.Strict && fmt.Sprint(keysOf(gotExtra)) != fmt.Sprint(keysOf(d.extra)) {
			return fmt.Sprintf("%sroot %d (%q) is the first that differs; extra entries listed %v, want exactly %v", head, ri, merged[ri].Name, keysOf(gotExtra), keysOf(d.extra))
		}
		if !c.Strict && len(gotExtra) != 0 {
			return fmt.Sprintf("%sextra entries listed in non-strict mode: %v", head, keysOf(gotExtra))
		}
		break
	}
	return ""
}

func keysOf(m map[string]bool) []string {
	out := make([]string, 0, len(m))
	for k := range m {
		out = append(out, k)
	}
	sort.Strings(out)
	return out
}

func c08Record(col *collector, c c08Case) {
	cl := []string{"entry:" + c.Entry}
	if c.Strict {
		cl = append(cl, "strict")
	} else {
		cl = append(cl, "non-strict")
	}
	if c.Massive {
		cl = append(cl, "massive")
	}
	deep := false
	paths, _ := nodePaths(c.Forest)
	for _, d := range c.Drop {
		if d < len(paths) {
			if strings.Count(paths[d], "/") >= 1 {
				deep = true
			}
			if !strings.Contains(paths[d], "/") {
				cl = append(cl, "root-absent")
			}
		}
	}
	for _, x := range c.Extra {
		if strings.Count(x.Path, "/") >= 1 {
			deep = true
		}
	}
	switch {
	case len(c.Drop) > 0 && len(c.Extra) > 0:
		cl = append(cl, "both-missing-and-extra")
	case len(c.Drop) > 0:
		cl = append(cl, "missing-only")
	case len(c.Extra) > 0:
		cl = append(cl, "extra-only")
	}
	for _, i := range c.AsFile {
		if i < len(paths) && !strings.Contains(paths[i], "/") {
			cl = append(cl, "root-is-file")
		} else {
			cl = append(cl, "node-is-file")
		}
	}
	if c.History != "" {
		cl = append(cl, "mkdir-history")
	}
	if c.NoTarget {
		cl = append(cl, "target-dir-absent")
	}
	if c.RootLink {
		cl = append(cl, "root-is-symlink-to-dir")
	}
	if c.Refusal != "" {
		cl = append(cl, "refusal:"+c.Refusal)
	}
	if c.Target != "" {
		cl = append(cl, "target:"+c.Target)
	}
	if len(c.PreOps) > 0 && c.Again > 0 {
		cl = append(cl, "verified-before-then-grown")
	}
	if c.FsRoot != "" {
		cl = append(cl, "target-is-file-system-root")
	}
	nontrivial := deep || c.History == "mkdir" && len(c.Exts) > 0 || len(c.AsFile) > 0
	col.eval(nontrivial, hash64(fmt.Sprint(c)), cl...)
	col.sample(func() any { return c })
}

func c08Names() []string {
	var out []string
	for _, n := range validElemPool() {
		if !strings.ContainsAny(n, "\t\n\r") {
			out = append(out, n)
		}
	}
	return out
}

func c08Gen() *rapid.Generator[c08Case] {
	return rapid.Custom(func(t *rapid.T) c08Case {
		entry := rapid.SampledFrom([]string{"md", "md", "root"}).Draw(t, "entry")
		f := genForest(forestParams{maxNodes: 12, maxDepth: 6, names: sampled(c08Names()), oneRoot: entry == "root"}).Draw(t, "forest")
		if hasDupRoots(f) {
			uniqRoots(f)
		}
		c := c08Case{Forest: f, Entry: entry, Strict: rapid.Bool().Draw(t, "strict"), Target: rapid.SampledFrom([]string{"", "rel", "slash", "short", "tilde"}).Draw(t, "target")}
		c.Massive = rapid.IntRange(0, 4).Draw(t, "massive") == 0
		if entry == "root" && rapid.IntRange(0, 2).Draw(t, "withPreOps") == 0 {
			c.PreOps = rapid.SliceOfN(rapid.SampledFrom([]string{"verify", "verify", "verify-massive", "verify-noopt", "output", "dryrun", "walk", "mkdir-elsewhere"}), 1, 2).Draw(t, "preOps")
			c.Again = rapid.IntRange(0, 3).Draw(t, "again")
		}
		if rapid.IntRange(0, 3).Draw(t, "hist") == 0 {
			c.History = "mkdir"
			c.Exts = genExts(f.Names()).Draw(t, "exts")
			return c
		}
		if rapid.IntRange(0, 9).Draw(t, "noTarget") == 0 {
			c.NoTarget = true
			if linkTarget(c.Target) {
				c.Target = ""
			}
			return c
		}
		c.RootLink = rapid.IntRange(0, 5).Draw(t, "rootLink") == 0
		if rapid.IntRange(0, 11).Draw(t, "refusal") == 0 {
			c.Refusal = rapid.SampledFrom([]string{"longroot", "targetIsFile"}).Draw(t, "refusalKind")
			c.RootLink = false
			if linkTarget(c.Target) {
				c.Target = ""
			}
		}
		shortRoots := true
		for _, r := range f {
			shortRoots = shortRoots && len(r.Name) <= 200
		}
		if !c.RootLink && c.Refusal == "" && shortRoots && rapid.IntRange(0, 7).Draw(t, "fsRoot") == 0 {
			c.FsRoot = rapid.SampledFrom([]string{"/", "//", "/.", "/x/.."}).Draw(t, "fsRootSpelling")
			c.Target = ""
			for _, r := range f { // (names that cannot collide with what else lives in the worker's root directory)
				r.Name = "R-" + r.Name
			}
		}
		n := model.Merge(f).Count()
		c.Drop = rapid.SliceOfN(rapid.IntRange(0, n-1), 0, 3).Draw(t, "drop")
		if rapid.IntRange(0, 3).Draw(t, "flip") == 0 {
			c.AsFile = []int{rapid.IntRange(0, n-1).Draw(t, "asFile")}
			c.Hard = rapid.Bool().Draw(t, "hardLinks")
		}
		paths, _ := nodePaths(f)
		ne := rapid.IntRange(0, 3).Draw(t, "nextra")
		for i := 0; i < ne; i++ {
			var base string
			switch rapid.IntRange(0, 2).Draw(t, "where") {
			case 0:
				base = "" // beside the roots
			default:
				base = paths[rapid.IntRange(0, len(paths)-1).Draw(t, "under")] + "/"
			}
			name := rapid.SampledFrom([]string{"~x", "~y/z", "~.hidden", "~x y", "~x\xffy", "~\xc3", "~%s", "~a\\b"}).Draw(t, "xname")
			kind := rapid.SampledFrom([]string{"d", "f", "f", "h"}).Draw(t, "xkind")
			if !utf8.ValidString(name) {
				kind = "f" // (a DIRECTORY with such a name makes the library's directory walk fail as a whole: an error either way)
			}
			c.Extra = append(c.Extra, ops.FSEntry{Path: base + name, Kind: kind})
		}
		return c
	})
}

func TestC08Random(t *testing.T) {
	col := coll("C08", "random")
	col.Rule = "rapid: forests (distinct roots, valid path elements) x directory state built from the tree (drawn node paths removed with their subtrees, node paths present as regular files, extra files/dirs beside the roots / inside roots / inside leaves, or the state produced by gtree's own Mkdir with a drawn extension list) x strict x target spelling x entry x {simple, massive}; missing/extra sets are computed from the snapshot and compared with the parsed error text; non-trivial = a difference at depth>=2, a kind flip, or a Mkdir history with extensions"
	rapid.Check(t, func(rt *rapid.T) {
		c := c08Gen().Draw(rt, "case")
		if k := c08Excluded(c); k != "" {
			col.excluded(k)
			return
		}
		c08Record(col, c)
		if msg := c08Check(c); msg != "" {
			violation(rt, "C08", "c08", c, msg)
		}
	})
}

func c08Excluded(c c08Case) string { return "" }

func TestC08Exhaustive(t *testing.T) {
	col := coll("C08", "exhaustive")
	maxN := pick(4, 5)
	col.Rule = fmt.Sprintf("all single-root trees and two-root forests <=%d nodes over {a,b} (distinct roots) x ALL subsets of node paths removed x {strict, non-strict} x {no extra, one extra entry inside the first root}", maxN)
	i := 0
	model.EnumForests(maxN, []string{"a", "b"}, func(f model.Forest) {
		if hasDupRoots(f) || len(f) > 2 || f.HasMerge() {
			return
		}
		i++
		if i%nshards != shard {
			return
		}
		n := f.Count()
		for mask := 0; mask < 1<<n; mask++ {
			var drop []int
			for b := 0; b < n; b++ {
				if mask&(1<<b) != 0 {
					drop = append(drop, b)
				}
			}
			for _, strict := range []bool{false, true} {
				for _, extra := range [][]ops.FSEntry{nil, {{Path: f[0].Name + "/~x", Kind: "d"}}} {
					entry := "md"
					if len(f) == 1 && mask%2 == 1 {
						entry = "root"
					}
					c := c08Case{Forest: f, Entry: entry, Strict: strict, Drop: drop, Extra: extra}
					c08Record(col, c)
					if msg := c08Check(c); msg != "" {
						violation(t, "C08", "c08", c, msg)
					}
				}
			}
		}
	})
	col.Exhaustive = true
}

// ---- wide directories ---------------------------------------------------------------------------------------------------

// c08Wide: a root with W children, every fifth of which has a child of its own; the directory state is the exact tree, the
// tree minus one grandchild, or the tree plus one extra entry below a child.
type c08Wide struct {
	W       int    `json:"w"`
	Variant string `json:"variant"` // exact | drop | extra
	At      int    `json:"at"`      // which child (index) the dropped grandchild / the extra entry belongs to
	Strict  bool   `json:"strict"`
	Massive bool   `json:"massive,omitempty"`
	Entry   string `json:"entry"`
}

func init() { registerReplay("c08w", c08WideCheck) }

func c08WideCheck(w c08Wide) string {
	r := &model.T{Name: "wide"}
	dropIdx, idx := -1, 0
	for i := 0; i < w.W; i++ {
		idx++
		k := &model.T{Name: fmt.Sprintf("k%04d", i)}
		if i%5 == 0 || i == w.At {
			k.Kids = []*model.T{{Name: "g"}}
			idx++
			if i == w.At {
				dropIdx = idx
			}
		}
		r.Kids = append(r.Kids, k)
	}
	c := c08Case{Forest: model.Forest{r}, Entry: w.Entry, Strict: w.Strict, Massive: w.Massive}
	switch w.Variant {
	case "drop":
		c.Drop = []int{dropIdx}
	case "extra":
		c.Extra = []ops.FSEntry{{Path: fmt.Sprintf("wide/k%04d/~x", w.At), Kind: "d"}}
	}
	msg := c08Check(c)
	if msg == "" {
		return ""
	}
	if i := strings.Index(msg, "\n"); i >= 0 {
		msg = msg[i+1:]
	}
	return fmt.Sprintf("a root with %d children (every fifth and child %d with a child of its own), state: %s (at child %d), strict=%v massive=%v entry=%s\n%s", w.W, w.At, w.Variant, w.At, w.Strict, w.Massive, w.Entry, truncate(msg, 1500))
}

func TestC08Wide(t *testing.T) {
	col := coll("C08", "wide")
	ws := []int{1023, 1030}
	if thorough() {
		ws = []int{255, 256, 1023, 1024, 1025, 1030, 2047, 2050, 4100}
	}
	col.Rule = fmt.Sprintf("a root directory with W entries, W in %v, every fifth of which has a child (so have the first, a middle and the last entry) x state {exact, one grandchild missing, one extra entry below a child} x position {first, middle, last child} x strict x {md, root} x rotating simple/massive; oracle as in the other parts", ws)
	n := 0
	for _, w := range ws {
		for _, variant := range []string{"exact", "drop", "extra"} {
			for _, at := range []int{0, w / 2, w - 1} {
				for _, strict := range []bool{false, true} {
					for _, entry := range []string{"md", "root"} {
						n++
						if n%nshards != shard {
							continue
						}
						if !thorough() && hash64(fmt.Sprint(w, variant, at, strict, entry))%2 != 0 {
							continue
						}
						c := c08Wide{W: w, Variant: variant, At: at, Strict: strict, Massive: n%3 == 0, Entry: entry}
						col.eval(true, hash64(fmt.Sprint(c)), "state:"+variant, fmt.Sprintf("strict:%v", strict), fmt.Sprintf("w>=1024:%v", w >= 1024))
						col.sample(func() any { return c })
						if msg := c08WideCheck(c); msg != "" {
							violation(t, "C08", "c08w", c, msg)
						}
					}
				}
			}
		}
	}
	col.Exhaustive = true
}
