package props

import (
	"bufio"
	"encoding/json"
	"fmt"
	"io"
	"os"
	"os/exec"
	"strings"
	"sync"
	"testing"

	"verif/harness/model"
	"verif/harness/ops"

	"pgregory.net/rapid"
)

// C17 — the tinywasm build renders the same trees as the default build (differential between two builds of one driver).

type c17Case struct {
	Doc    []byte     `json:"doc"`
	Branch *[4]string `json:"branch,omitempty"`
	Mode   string     `json:"mode"`
	Exts   []string   `json:"exts,omitempty"`
}

type c17Result struct {
	ErrNil bool   `json:"errNil"`
	Err    string `json:"err,omitempty"`
	Out    []byte `json:"out,omitempty"`
	Panic  string `json:"panic,omitempty"`
	died   string
}

type owProc struct {
	cmd   *exec.Cmd
	stdin io.WriteCloser
	out   *bufio.Reader
}

var (
	owMu    sync.Mutex
	owProcs = map[string]*owProc{}
)

func owRun(variant string, c c17Case) c17Result {
	owMu.Lock()
	defer owMu.Unlock()
	p := owProcs[variant]
	if p == nil {
		bin := os.Getenv("VERIF_OW_DEFAULT_BIN")
		if variant == "tinywasm" {
			bin = os.Getenv("VERIF_OW_WASM_BIN")
		}
		if bin == "" {
			return c17Result{died: "INFRA no outworker binary for " + variant}
		}
		cmd := exec.Command(bin)
		in, _ := cmd.StdinPipe()
		out, _ := cmd.StdoutPipe()
		cmd.Stderr = os.Stderr
		if err := cmd.Start(); err != nil {
			return c17Result{died: "INFRA " + err.Error()}
		}
		p = &owProc{cmd: cmd, stdin: in, out: bufio.NewReaderSize(out, 1<<20)}
		owProcs[variant] = p
	}
	b, _ := json.Marshal(c)
	if _, err := p.stdin.Write(append(b, '\n')); err != nil {
		delete(owProcs, variant)
		return c17Result{died: "worker stdin: " + err.Error()}
	}
	line, err := p.out.ReadBytes('\n')
	if err != nil {
		p.cmd.Wait()
		delete(owProcs, variant)
		return c17Result{died: "the " + variant + " build died on this input"}
	}
	var r c17Result
	json.Unmarshal(line, &r)
	return r
}

func init() {
	registerReplay("c17", c17Check)
	registerReplay("c17big", c17BigCheck)
}

type c17Big struct {
	SizeMiB          int    `json:"sizeMiB"`
	Mode             string `json:"mode"`
	MalformedLastRow bool   `json:"malformedLastRow"`
}

func c17BigCheck(b c17Big) string {
	row := "- " + strings.Repeat("m", 1000) + "\n  - " + strings.Repeat("k", 1000) + "\n"
	doc := strings.Repeat(row, (b.SizeMiB<<20)/len(row)+1)
	if b.MalformedLastRow {
		doc += "      - too deep\n"
	}
	return truncate(c17Check(c17Case{Doc: []byte(doc), Mode: b.Mode}), 2000)
}

func c17Check(c c17Case) string {
	a, b := owRun("default", c), owRun("tinywasm", c)
	head := fmt.Sprintf("mode=%s branch=%v exts=%q doc=%q\n", c.Mode, c.Branch, c.Exts, truncate(string(c.Doc), 300))
	for _, r := range []c17Result{a, b} {
		if len(r.died) > 5 && r.died[:5] == "INFRA" {
			ops.InfraCount.Add(1)
			ops.LastInfra.Store(r.died)
			return ""
		}
	}
	if a.died != "" || b.died != "" || a.Panic != "" || b.Panic != "" {
		return fmt.Sprintf("%sdefault build: %s %s; tinywasm build: %s %s", head, a.died, a.Panic, b.died, b.Panic)
	}
	if a.ErrNil != b.ErrNil {
		return fmt.Sprintf("%sdefault build returned %q, tinywasm build returned %q", head, a.Err, b.Err)
	}
	if a.ErrNil && string(a.Out) != string(b.Out) {
		return fmt.Sprintf("%soutputs differ: %s\ndefault:\n%s\ntinywasm:\n%s", head, firstDiff(string(b.Out), string(a.Out)), truncate(string(a.Out), 1200), truncate(string(b.Out), 1200))
	}
	return ""
}

func c17Record(col *collector, c c17Case, origin string, nodes, depth int) {
	cl := []string{"mode:" + c.Mode, "origin:" + origin}
	if c.Branch != nil {
		cl = append(cl, "custom-branch")
	}
	if depth >= 30 {
		cl = append(cl, "depth>=30")
	}
	col.eval(nodes >= 3 && depth >= 2 || origin != "well-formed", hash64(string(c.Doc), fmt.Sprint(c.Branch, c.Mode, c.Exts)), cl...)
	col.sample(func() any {
		return map[string]any{"doc": truncate(string(c.Doc), 200), "mode": c.Mode, "branch": c.Branch, "exts": c.Exts}
	})
}

func branch4(b *model.Branch) *[4]string {
	if b == nil {
		return nil
	}
	return &[4]string{b.MidD, b.MidI, b.LastD, b.LastI}
}

func TestC17Random(t *testing.T) {
	col := coll("C17", "random")
	col.Rule = "rapid: documents (70% well-formed in any spelling, 15% with one injected malformation, 15% byte/line-mutated) x {text with default or custom branch strings, JSON, dry-run + extension list}; both builds of cmd/outworker (default, -tags tinywasm) receive the same case; non-trivial = >=3 nodes and depth>=2, or a malformed document"
	rapid.Check(t, func(rt *rapid.T) {
		mode := rapid.SampledFrom([]string{"text", "text", "json", "dryrun"}).Draw(rt, "mode")
		names := genNameMix(poolTiny, poolSyntax, poolUnicode, poolEncoding, poolPathy, nil)
		if mode == "dryrun" {
			names = rapid.OneOf(sampled(validElemPool()), sampled(validElemPool()), sampled(poolHostilePathItems()))
		}
		var f model.Forest
		switch rapid.IntRange(0, 19).Draw(rt, "big") {
		case 0, 1: // deep nesting (up to 90 levels)
			f = genDeepForest(names, false).Draw(rt, "deepForest")
		case 3:
			f = genWideRepeat().Draw(rt, "wideRepeat")
		case 2:
			f = genForest(forestParams{maxNodes: 150, maxDepth: 12, names: names}).Draw(rt, "bigForest")
		default:
			f = genForest(forestParams{maxNodes: 16, maxDepth: 8, names: names}).Draw(rt, "forest")
		}
		sp := genSpelling(f.HeadingOK()).Draw(rt, "sp")
		lines := model.SpellLines(f, sp)
		origin := "well-formed"
		var doc []byte
		switch rapid.IntRange(0, 6).Draw(rt, "origin") {
		case 0:
			inj := model.Injection{Class: rapid.SampledFrom(model.InjClasses).Draw(rt, "class"), Line: rapid.IntRange(0, f.Count()-1).Draw(rt, "line"), Variant: rapid.IntRange(0, 7).Draw(rt, "variant")}
			if nl, _, ok := model.Inject(lines, sp, inj); ok {
				lines = nl
				origin = "injected"
			}
			doc = []byte(model.Join(lines))
		case 1:
			doc, _ = c12Mutate(rt, []byte(model.Join(lines)))
			origin = "mutated"
		default:
			doc = []byte(model.Join(lines))
		}
		c := c17Case{Doc: doc, Mode: mode}
		if mode == "text" {
			c.Branch = branch4(genBranch().Draw(rt, "branch"))
		}
		if mode == "dryrun" {
			c.Exts = genExts(extSources(f)).Draw(rt, "exts")
		}
		c17Record(col, c, origin, f.Count(), f.Depth())
		if msg := c17Check(c); msg != "" {
			violation(rt, "C17", "c17", c, msg)
		}
	})
}

func TestC17Exhaustive(t *testing.T) {
	col := coll("C17", "exhaustive")
	maxN := pick(5, 7)
	col.Rule = fmt.Sprintf("all forests <=%d nodes over {a,b} x spelling panel x {text default, text custom branch, JSON, dry-run with extension b} plus every malformation class at the last line", maxN)
	i := 0
	model.EnumForests(maxN, []string{"a", "b"}, func(f model.Forest) {
		i++
		if i%nshards != shard {
			return
		}
		for si, sp := range model.Panel {
			if sp.Heading && !f.HeadingOK() {
				continue
			}
			doc := []byte(model.Spell(f, sp))
			cases := []c17Case{{Doc: doc, Mode: "text"}, {Doc: doc, Mode: "text", Branch: branch4(branchPanel[1+si%3])}, {Doc: doc, Mode: "json"}, {Doc: doc, Mode: "dryrun", Exts: []string{"b"}}}
			for _, c := range cases {
				c17Record(col, c, "well-formed", f.Count(), f.Depth())
				if msg := c17Check(c); msg != "" {
					violation(t, "C17", "c17", c, msg)
				}
			}
			if si == i%len(model.Panel) {
				for _, cls := range model.InjClasses {
					if nl, _, ok := model.Inject(model.SpellLines(f, sp), sp, model.Injection{Class: cls, Line: f.Count() - 1}); ok {
						c := c17Case{Doc: []byte(model.Join(nl)), Mode: []string{"text", "json", "dryrun"}[i%3]}
						c17Record(col, c, "injected", f.Count(), f.Depth())
						if msg := c17Check(c); msg != "" {
							violation(t, "C17", "c17", c, msg)
						}
					}
				}
			}
		}
	})
	col.Exhaustive = true
}

func TestC17Constants(t *testing.T) {
	col := coll("C17", "constants")
	col.Rule = "the fixed hostile inputs of C12 x {text, JSON, dry-run}, multi-root documents beyond 64 KiB, and documents of 17 MiB (quick: text) / 17 and 33 MiB (thorough: every mode, also with a malformed last row)"
	big := []string{strings.Repeat("- 0123456789012345678901234567\n", 2049), strings.Repeat("- r\n  - kkkkkkkkkkkkkkkkkkkkkkkkkkkkkkkkkkkkkkkk\n", 1700), "- a\n" + strings.Repeat("  - "+strings.Repeat("y", 100)+"\n", 700) + "- b\n"}
	for _, d := range append(append([]string{}, c12Constants...), big...) {
		for _, m := range []string{"text", "json", "dryrun"} {
			c := c17Case{Doc: []byte(d), Mode: m}
			c17Record(col, c, "constant", 0, 0)
			if msg := c17Check(c); msg != "" {
				violation(t, "C17", "c17", c, msg)
			}
		}
	}
	// very large documents (a size limit that only one build has would cut them silently): 17 MiB in the quick tier (text),
	// 17 and 33 MiB in every mode in the thorough tier, well-formed and with a malformed last row
	sizes, modes := []int{17}, []string{"text"}
	if thorough() {
		sizes, modes = []int{17, 33}, []string{"text", "json", "dryrun"}
	}
	for _, sz := range sizes {
		for _, m := range modes {
			for _, bad := range []bool{false, true} {
				if !thorough() && bad {
					continue
				}
				b := c17Big{SizeMiB: sz, Mode: m, MalformedLastRow: bad}
				col.eval(true, hash64(fmt.Sprint(b)), "mode:"+m, fmt.Sprintf("size:%dMiB", sz))
				if msg := c17BigCheck(b); msg != "" {
					violation(t, "C17", "c17big", b, msg)
				}
			}
		}
	}
	col.Exhaustive = true
}
