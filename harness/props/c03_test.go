package props

import (
	"fmt"
	"testing"

	"verif/harness/model"
	"verif/harness/ops"

	"github.com/ddddddO/gtree"
	"pgregory.net/rapid"
)

// C03 — programmatically built trees behave exactly like the equivalent Markdown (differential between the two API
// families), repeated Add returns the existing child, sentinel errors for nil / non-root, deprecated aliases identical.

type c03Case struct {
	Root    string        `json:"root"`
	Prog    []ops.AddStep `json:"prog"` // build program, may contain repeated Adds and any parent-before-child order
	Op      string        `json:"op"`   // text json yaml toml walk walkiter mkdir verify
	Alias   bool          `json:"alias,omitempty"`
	Branch  *model.Branch `json:"branch,omitempty"`
	Exts    []string      `json:"exts,omitempty"`
	Strict  bool          `json:"strict,omitempty"`
	Drop    []int         `json:"drop,omitempty"`
	Extra   []string      `json:"extra,omitempty"`
	PreOps  []string      `json:"preOps,omitempty"`  // earlier operations on the same node tree (From-Root side only; Markdown has no state)
	WFail   int           `json:"wFail,omitempty"`   // >0: the writer of both sides fails at write index WFail-1 (text and encoded output)
	Massive bool          `json:"massive,omitempty"` // WithMassive on both sides (an option both API families accept)
	Dry     bool          `json:"dry,omitempty"`     // walk: WithDryRun on both sides (names are then validated before anything is visited)
	PreRoot bool          `json:"preRoot,omitempty"` // mkdir: the root already exists in the target directory
	Also    string        `json:"also,omitempty"`    // an option that has nothing to do with the operation, on both sides: json | yaml | toml | strict | dry | exts | noiter ("all options accepted by both API families")
}

var c03Ops = []string{"text", "json", "yaml", "toml", "walk", "walkiter", "mkdir", "verify"}

func init() {
	registerReplay("c03", c03Check)
	registerReplay("c03s", c03SentinelCheck)
}

func c03Cases(c c03Case) (root, md ops.Case) {
	tree := applyProgram(c.Root, c.Prog)
	root = ops.NewCase("output", "root")
	if c.Alias {
		root.Entry = "alias"
	}
	root.Root = &c.Root
	root.Prog = c.Prog
	root.PreOps = c.PreOps
	md = ops.NewCase("output", "md")
	md.Doc = []byte(model.Spell(model.Forest{tree}, model.Plain2))
	for _, cs := range []*ops.Case{&root, &md} {
		cs.Opts.Branch = c.Branch
		switch c.Also {
		case "json", "yaml", "toml":
			cs.Opts.Encode = c.Also
		case "strict":
			cs.Opts.Strict = true
		case "dry":
			cs.Opts.DryRun = true
		case "exts":
			cs.Opts.Exts, cs.Opts.HasExts = []string{"a", ".go"}, true
		case "noiter":
			cs.Opts.NoIter = true
		}
		cs.Opts.Massive = c.Massive && c.Op != "walkiter"
		switch c.Op {
		case "json", "yaml", "toml":
			cs.Opts.Encode = c.Op
		case "walk", "walkiter":
			cs.Op = "walk"
			cs.Opts.DryRun = c.Dry
		case "mkdir":
			cs.Op = "mkdir"
			cs.Opts.Exts = c.Exts
			cs.Opts.TargetOpt = "rel"
			cs.FS = &ops.FSSpec{}
			if c.PreRoot && model.ValidElem(c.Root) {
				cs.FS.Pre = []ops.FSEntry{{Path: c.Root, Kind: "d"}}
			}
		case "verify":
			cs.Op = "verify"
			cs.Opts.Strict = c.Strict
			cs.Opts.TargetOpt = "rel"
			drop := map[int]bool{}
			for _, d := range c.Drop {
				drop[d] = true
			}
			pre := materialize(model.Forest{tree}, nil, drop)
			for _, e := range c.Extra {
				pre = append(pre, ops.FSEntry{Path: e, Kind: "d"})
			}
			cs.FS = &ops.FSSpec{Pre: pre}
		}
	}
	if c.Op == "walkiter" {
		root.Op = "walkiter"
		root.RangeTwice = len(c.Prog)%2 == 1 // the iterator is a value over the tree: ranging over it again walks the tree again
	}
	if c.WFail > 0 && (c.Op == "text" || c.Op == "json" || c.Op == "yaml" || c.Op == "toml") {
		root.Faults.WriterFailAt = c.WFail - 1
		md.Faults.WriterFailAt = c.WFail - 1
		if c.Op == "text" {
			md.Opts.NoIter = true // one write per row on both sides
		}
	}
	return
}

func c03Check(c c03Case) string {
	tree := applyProgram(c.Root, c.Prog)
	head := fmt.Sprintf("tree %s built by %d Add calls, op=%s alias=%v\n", tree, len(c.Prog), c.Op, c.Alias)

	// repeated Add returns the identical pointer and creates no duplicate
	nodes := ops.BuildRoot(c.Root, c.Prog)
	mnodes := []*model.T{{Name: c.Root}}
	first := map[*model.T]*gtree.Node{mnodes[0]: nodes[0]}
	for i, s := range c.Prog {
		p := mnodes[s.P]
		var found *model.T
		for _, k := range p.Kids {
			if k.Name == s.N {
				found = k
			}
		}
		if found == nil {
			found = &model.T{Name: s.N}
			p.Kids = append(p.Kids, found)
			first[found] = nodes[i+1]
		} else if first[found] != nodes[i+1] {
			return fmt.Sprintf("%sAdd call %d (%q under an existing parent) returned a new node although that name already exists there", head, i, s.N)
		}
		mnodes = append(mnodes, found)
	}

	rc, mc := c03Cases(c)
	var rr, mr *ops.Result
	if c.Massive {
		rr, mr = pool("plain").Run(&rc), pool("plain").Run(&mc)
	} else {
		rr, mr = ops.DefaultEnv.Run(&rc), ops.DefaultEnv.Run(&mc)
	}
	if rr.Infra != "" || mr.Infra != "" {
		return ""
	}
	if cr := rr.Crashed(); cr != "" {
		return head + "From-Root: " + cr
	}
	if cr := mr.Crashed(); cr != "" {
		return head + "From-Markdown: " + cr
	}
	if rr.Err.Nil != mr.Err.Nil {
		return fmt.Sprintf("%sFrom-Root error %q, From-Markdown error %q", head, rr.Err.Text, mr.Err.Text)
	}
	if c.Op == "mkdir" && rr.Err.IsExistPath != mr.Err.IsExistPath {
		return fmt.Sprintf("%sthe two families refuse for different reasons: From-Root %q, From-Markdown %q", head, rr.Err.Text, mr.Err.Text)
	}
	if c.Op == "verify" && sortedLines(rr.Err.Text) != sortedLines(mr.Err.Text) {
		return fmt.Sprintf("%sverify reports differ:\nFrom-Root: %q\nFrom-Markdown: %q", head, rr.Err.Text, mr.Err.Text)
	}
	if c.WFail > 0 && rr.WriteFailed != mr.WriteFailed {
		return "" // the two sides split the output into writes differently at this index; nothing to compare
	}
	if string(rr.Out) != string(mr.Out) {
		return fmt.Sprintf("%soutput differs: %s\nFrom-Root:\n%s\nFrom-Markdown:\n%s", head, firstDiff(string(rr.Out), string(mr.Out)), rr.Out, mr.Out)
	}
	if len(rr.Visits) != len(mr.Visits) {
		return fmt.Sprintf("%sFrom-Root walk visited %d nodes, From-Markdown %d", head, len(rr.Visits), len(mr.Visits))
	}
	for i := range rr.Visits {
		if rr.Visits[i] != mr.Visits[i] {
			return fmt.Sprintf("%svisit %d: From-Root %+v, From-Markdown %+v", head, i, rr.Visits[i], mr.Visits[i])
		}
	}
	if (c.Op == "walk" || c.Op == "walkiter") && rr.Err.Nil {
		if len(rr.Visits) != tree.Count() {
			return fmt.Sprintf("%swalk visited %d nodes but the tree has %d", head, len(rr.Visits), tree.Count())
		}
		if c.Op == "walkiter" && len(c.Prog)%2 == 1 && rr.SecondVisits != tree.Count() {
			return fmt.Sprintf("%sranging over the same iterator value a second time visited %d nodes, the tree has %d", head, rr.SecondVisits, tree.Count())
		}
	}
	if c.Op == "mkdir" || c.Op == "verify" {
		a, b := snapString(stripMtime(rr.After)), snapString(stripMtime(mr.After))
		if a != b {
			return fmt.Sprintf("%sfilesystem differs:\n--- From-Root\n%s--- From-Markdown\n%s", head, a, b)
		}
	}
	return ""
}

func c03Record(col *collector, c c03Case) {
	tree := applyProgram(c.Root, c.Prog)
	n := tree.Count()
	repeats := len(c.Prog) - (n - 1)
	pre := preorderProgram(tree)
	nonPre := len(pre) != len(c.Prog)
	if !nonPre {
		for i := range pre {
			if pre[i] != c.Prog[i] {
				nonPre = true
			}
		}
	}
	cl := []string{"op:" + c.Op}
	if repeats > 0 {
		cl = append(cl, "repeat-add")
	}
	if nonPre {
		cl = append(cl, "non-preorder-build")
	}
	if c.Branch != nil {
		cl = append(cl, "custom-branch")
	}
	if c.Alias {
		cl = append(cl, "deprecated-alias")
	}
	if len(c.PreOps) > 0 {
		cl = append(cl, "after-earlier-calls-on-the-same-tree")
	}
	if c.WFail > 0 {
		cl = append(cl, "failing-writer-on-both-sides")
	}
	if c.Massive {
		cl = append(cl, "massive-on-both-sides")
	}
	col.eval(n >= 4 && (repeats > 0 || nonPre), hash64(c.Root, fmt.Sprint(c.Prog, c.Op, c.Alias, c.Branch, c.Exts, c.Strict, c.Drop, c.Extra, c.PreOps, c.WFail, c.Massive, c.Dry, c.PreRoot, c.Also)), cl...)
	col.sample(func() any { return map[string]any{"root": c.Root, "prog": c.Prog, "op": c.Op, "tree": tree.String()} })
}

// genProgram draws a build program for tree: a random linear extension of "parent before child, earlier sibling
// before later sibling", interleaved with repeated Adds of names that already exist.
func genProgram(t *rapid.T, tree *model.T, shuffle, repeats bool) []ops.AddStep {
	type pending struct {
		node   *model.T
		parent int // program index of the parent
	}
	var avail []pending
	next := map[*model.T]int{} // next child to release per node
	idx := map[*model.T]int{tree: 0}
	release := func(n *model.T) {
		if next[n] < len(n.Kids) {
			avail = append(avail, pending{n.Kids[next[n]], idx[n]})
			next[n]++
		}
	}
	release(tree)
	var prog []ops.AddStep
	added := []pending{}
	for len(avail) > 0 {
		if repeats && len(added) > 0 && rapid.IntRange(0, 3).Draw(t, "rep") == 0 {
			r := added[rapid.IntRange(0, len(added)-1).Draw(t, "repIdx")]
			prog = append(prog, ops.AddStep{P: r.parent, N: r.node.Name})
			// the repeated Add returns the existing node; later steps may use either index
			if rapid.Bool().Draw(t, "useRepIdx") {
				idx[r.node] = len(prog)
			}
			continue
		}
		i := len(avail) - 1 // depth-first by default
		if shuffle {
			i = rapid.IntRange(0, len(avail)-1).Draw(t, "pick")
		}
		p := avail[i]
		avail = append(avail[:i], avail[i+1:]...)
		// the parent index may have been updated by a repeated Add
		var parentNode *model.T
		for n, k := range idx {
			_ = k
			for _, kid := range n.Kids {
				if kid == p.node {
					parentNode = n
				}
			}
		}
		pi := p.parent
		if parentNode != nil {
			pi = idx[parentNode]
		}
		prog = append(prog, ops.AddStep{P: pi, N: p.node.Name})
		idx[p.node] = len(prog)
		added = append(added, pending{p.node, pi})
		// release this node's first child and the parent's next child
		release(p.node)
		if parentNode != nil {
			release(parentNode)
		}
	}
	return prog
}

func c03Gen() *rapid.Generator[c03Case] {
	return rapid.Custom(func(t *rapid.T) c03Case {
		op := rapid.SampledFrom(c03Ops).Draw(t, "op")
		fsOp := op == "mkdir" || op == "verify"
		var names *rapid.Generator[string]
		if fsOp {
			names = sampled(validElemPool())
		} else {
			names = genNameMix(poolTiny, poolSyntax, poolUnicode, poolEncoding, poolHostilePathItems(), nil)
		}
		preRoot := op == "mkdir" && rapid.IntRange(0, 3).Draw(t, "preRoot") == 0
		if op == "mkdir" && rapid.IntRange(0, 3).Draw(t, "slashNames") == 0 {
			// names that are not single path elements but cannot leave the target ("a/b"): both families must refuse alike
			names = rapid.OneOf(sampled(validElemPool()), sampled(validElemPool()), sampled([]string{"a/b", "x/y/z", "a/", "b//c"}))
		}
		f := genForest(forestParams{maxNodes: 14, maxDepth: 8, names: names, oneRoot: true}).Draw(t, "forest")
		tree := model.Merge(f)[0]
		c := c03Case{Root: tree.Name, Op: op, Alias: rapid.IntRange(0, 3).Draw(t, "alias") == 0, PreRoot: preRoot}
		c.Dry = op == "walk" && rapid.IntRange(0, 2).Draw(t, "dryWalk") == 0
		if rapid.IntRange(0, 3).Draw(t, "also") == 0 {
			// an option the operation has no use for must at least leave the two families in agreement
			switch op {
			case "text":
				c.Also = rapid.SampledFrom([]string{"strict", "exts"}).Draw(t, "alsoOpt")
			case "json", "yaml", "toml":
				c.Also = rapid.SampledFrom([]string{"strict", "exts", "noiter"}).Draw(t, "alsoOpt")
			case "walk", "walkiter":
				c.Also = rapid.SampledFrom([]string{"json", "yaml", "toml", "strict", "exts", "noiter"}).Draw(t, "alsoOpt")
			case "mkdir":
				c.Also = rapid.SampledFrom([]string{"strict", "noiter", "json", "yaml", "toml"}).Draw(t, "alsoOpt")
			case "verify":
				c.Also = rapid.SampledFrom([]string{"exts", "noiter", "dry", "json", "yaml", "toml"}).Draw(t, "alsoOpt")
			}
		}
		c.Prog = genProgram(t, tree, rapid.Bool().Draw(t, "shuffle"), rapid.Bool().Draw(t, "repeats"))
		if rapid.IntRange(0, 2).Draw(t, "withPreOps") == 0 {
			c.PreOps = rapid.SliceOfN(rapid.SampledFrom(preOpPool), 1, 3).Draw(t, "preOps")
		}
		c.Massive = rapid.IntRange(0, 5).Draw(t, "massive") == 0
		if !c.Massive && rapid.IntRange(0, 4).Draw(t, "writerFault") == 0 {
			c.WFail = 1 + rapid.IntRange(0, tree.Count()).Draw(t, "wFail")
		}
		switch op {
		case "text", "walk", "walkiter":
			c.Branch = genBranch().Draw(t, "branch")
		case "mkdir":
			c.Exts = genExts(extSources(f)).Draw(t, "exts")
		case "verify":
			c.Strict = rapid.Bool().Draw(t, "strict")
			c.Drop = rapid.SliceOfN(rapid.IntRange(0, tree.Count()-1), 0, 3).Draw(t, "drop")
			c.Extra = rapid.SliceOfN(rapid.SampledFrom([]string{"zz", tree.Name + "/zz", tree.Name + "/zz/y"}), 0, 2).Draw(t, "extra")
		}
		return c
	})
}

func TestC03Random(t *testing.T) {
	col := coll("C03", "random")
	col.Rule = "rapid: single-root tree x build program (random linear extension of parent-before-child / sibling order, interleaved repeated Adds whose result may be used as parent later) x operation x options; From-Root result compared with From-Markdown result on the 2-space spelling; non-trivial = >=4 nodes and (repeated Add or non-pre-order build)"
	rapid.Check(t, func(rt *rapid.T) {
		c := c03Gen().Draw(rt, "case")
		tree := applyProgram(c.Root, c.Prog)
		_ = tree
		c03Record(col, c)
		if msg := c03Check(c); msg != "" {
			violation(rt, "C03", "c03", c, msg)
		}
	})
}

// all linear extensions (without repeats) of small trees, plus one repeat inserted at every position
func TestC03Exhaustive(t *testing.T) {
	col := coll("C03", "exhaustive")
	maxN := pick(4, 5)
	col.Rule = fmt.Sprintf("all single-root trees <=%d nodes over {a,b} (merged) x ALL linear extensions of the build order x (no repeat | one repeated Add at every position) x rotating operation", maxN)
	i, rot := 0, 0
	seen := map[string]bool{}
	model.EnumTrees(maxN, []string{"a", "b"}, func(tr *model.T) {
		m := model.Merge(model.Forest{tr})[0]
		if seen[m.String()] {
			return
		}
		seen[m.String()] = true
		i++
		if i%nshards != shard {
			return
		}
		for _, prog := range allExtensions(m) {
			variants := [][]ops.AddStep{prog}
			for pos := 1; pos <= len(prog); pos++ {
				// repeat the Add of step pos-1 right after any later position
				rep := prog[(pos*7)%pos]
				v := append(append(append([]ops.AddStep{}, prog[:pos]...), rep), prog[pos:]...)
				// indexes after the insertion point shift by one
				for j := pos + 1; j < len(v); j++ {
					if v[j].P > pos {
						v[j].P++
					}
				}
				variants = append(variants, v)
			}
			for _, v := range variants {
				if !model.Equal(applyProgram(m.Name, v), m) {
					infra(t, fmt.Sprintf("program %v does not build %s", v, m))
				}
				rot++
				c := c03Case{Root: m.Name, Prog: v, Op: c03Ops[rot%len(c03Ops)], Alias: rot%5 == 0, Branch: branchPanel[rot%len(branchPanel)], Exts: []string{"b"}, Strict: rot%2 == 0}
				if c.Op == "verify" {
					c.Drop = []int{rot % m.Count()}
					c.Extra = []string{m.Name + "/zz"}
				}
				c03Record(col, c)
				if msg := c03Check(c); msg != "" {
					violation(t, "C03", "c03", c, msg)
				}
			}
		}
	})
	col.Exhaustive = true
}

// allExtensions enumerates every order of Add calls that builds tree (parent before child, earlier sibling first).
func allExtensions(tree *model.T) [][]ops.AddStep {
	type pend struct {
		node   *model.T
		parent *model.T
	}
	var out [][]ops.AddStep
	var rec func(avail []pend, next map[*model.T]int, idx map[*model.T]int, prog []ops.AddStep)
	rec = func(avail []pend, next map[*model.T]int, idx map[*model.T]int, prog []ops.AddStep) {
		if len(avail) == 0 {
			out = append(out, append([]ops.AddStep{}, prog...))
			return
		}
		for i, p := range avail {
			na := append(append([]pend{}, avail[:i]...), avail[i+1:]...)
			nn := map[*model.T]int{}
			for k, v := range next {
				nn[k] = v
			}
			ni := map[*model.T]int{}
			for k, v := range idx {
				ni[k] = v
			}
			np := append(append([]ops.AddStep{}, prog...), ops.AddStep{P: idx[p.parent], N: p.node.Name})
			ni[p.node] = len(np)
			if len(p.node.Kids) > 0 {
				na = append(na, pend{p.node.Kids[0], p.node})
				nn[p.node] = 1
			}
			if nn[p.parent] < len(p.parent.Kids) {
				na = append(na, pend{p.parent.Kids[nn[p.parent]], p.parent})
				nn[p.parent]++
			}
			rec(na, nn, ni, np)
		}
	}
	start := []pend{}
	next := map[*model.T]int{}
	if len(tree.Kids) > 0 {
		start = append(start, pend{tree.Kids[0], tree})
		next[tree] = 1
	}
	rec(start, next, map[*model.T]int{tree: 0}, nil)
	return out
}

// ---- sentinels ------------------------------------------------------------------------------------------------------

type c03Sentinel struct {
	Kind  string `json:"kind"` // nil | nonroot
	Op    string `json:"op"`   // output walk walkiter mkdir verify
	Alias bool   `json:"alias"`
	Opt   int    `json:"opt"` // option variant
}

func c03SentinelCheck(c c03Sentinel) string {
	cs := ops.NewCase(c.Op, "root")
	if c.Alias {
		cs.Entry = "alias"
	}
	cs.FS = &ops.FSSpec{}
	cs.Opts.TargetOpt = "rel"
	switch c.Opt % 4 {
	case 1:
		cs.Opts.Encode = "json"
	case 2:
		cs.Opts.DryRun = true
	case 3:
		cs.Opts.Massive = true
	}
	if c.Kind == "nonroot" {
		r := "root"
		cs.Root = &r
		cs.Prog = []ops.AddStep{{P: 0, N: "child"}, {P: 1, N: "grandchild"}}
		cs.UseSub = 1 + c.Opt%2
	}
	cs.ZeroNode = c.Kind == "zero"
	var res *ops.Result
	if cs.Opts.Massive {
		res = pool("plain").Run(&cs)
	} else {
		res = ops.DefaultEnv.Run(&cs)
	}
	head := fmt.Sprintf("%s node given to %s (alias=%v, option variant %d): ", c.Kind, c.Op, c.Alias, c.Opt%4)
	if res.Infra != "" {
		return ""
	}
	if cr := res.Crashed(); cr != "" {
		return head + cr
	}
	if c.Kind == "nil" && !res.Err.IsNilNode {
		return head + "want ErrNilNode, got " + fmt.Sprintf("%q", res.Err.Text)
	}
	if c.Kind == "zero" && !res.Err.IsNotRoot && !res.Err.IsNilNode {
		return head + "a node made by neither NewRoot nor Add is not a root: want one of the sentinel errors, got " + fmt.Sprintf("%q", res.Err.Text)
	}
	if c.Kind == "nonroot" && !res.Err.IsNotRoot {
		return head + "want ErrNotRoot, got " + fmt.Sprintf("%q", res.Err.Text)
	}
	if len(res.Out) != 0 || len(res.Color) != 0 || res.Writes != 0 {
		return fmt.Sprintf("%ssomething was written: %q %q", head, res.Out, res.Color)
	}
	if len(res.Visits) != 0 {
		return fmt.Sprintf("%s%d callbacks were made", head, len(res.Visits))
	}
	if cr, rm, ch := ops.Diff(res.Before, res.After); len(cr)+len(rm)+len(ch) != 0 {
		return fmt.Sprintf("%sfilesystem changed: created %v removed %v changed %v", head, cr, rm, ch)
	}
	return ""
}

func TestC03Sentinels(t *testing.T) {
	col := coll("C03", "sentinels")
	col.Rule = "every From-Root function and every deprecated alias x {nil node, non-root node (child, grandchild)} x option variants (plain, json, dry-run, massive)"
	for _, kind := range []string{"nil", "nonroot", "zero"} {
		for _, op := range []string{"output", "walk", "walkiter", "mkdir", "verify"} {
			for _, alias := range []bool{false, true} {
				for opt := 0; opt < 8; opt++ {
					c := c03Sentinel{Kind: kind, Op: op, Alias: alias, Opt: opt}
					col.eval(true, hash64(fmt.Sprint(c)), "sentinel:"+kind, "op:"+op)
					col.sample(func() any { return c })
					if msg := c03SentinelCheck(c); msg != "" {
						violation(t, "C03", "c03s", c, msg)
					}
				}
			}
		}
	}
	col.Exhaustive = true
}

// ---- deprecated Markdown aliases (Output/Mkdir/Verify/Walk) ---------------------------------------------------------

type c03MdAlias struct {
	Forest model.Forest `json:"forest"`
	Op     string       `json:"op"`
	Exts   []string     `json:"exts,omitempty"`
}

func init() { registerReplay("c03m", c03MdAliasCheck) }

func c03MdAliasCheck(c c03MdAlias) string {
	mk := func(entry string) *ops.Result {
		cs := ops.NewCase("output", entry)
		cs.Doc = []byte(model.Spell(c.Forest, model.Plain2))
		switch c.Op {
		case "json":
			cs.Opts.Encode = "json"
		case "walk":
			cs.Op = "walk"
		case "mkdir":
			cs.Op = "mkdir"
			cs.Opts.Exts = c.Exts
			cs.Opts.TargetOpt = "rel"
			cs.FS = &ops.FSSpec{}
		case "verify":
			cs.Op = "verify"
			cs.Opts.TargetOpt = "rel"
			cs.Opts.Strict = true
			cs.FS = &ops.FSSpec{Pre: materialize(c.Forest, nil, map[int]bool{1: true})}
		}
		return ops.DefaultEnv.Run(&cs)
	}
	a, b := mk("md"), mk("mdalias")
	head := fmt.Sprintf("forest %s op=%s: ", c.Forest, c.Op)
	if a.Crashed() != "" || b.Crashed() != "" {
		return head + a.Crashed() + b.Crashed()
	}
	if a.Err.Nil != b.Err.Nil || sortedLines(a.Err.Text) != sortedLines(b.Err.Text) || string(a.Out) != string(b.Out) || fmt.Sprint(a.Visits) != fmt.Sprint(b.Visits) ||
		snapString(stripMtime(a.After)) != snapString(stripMtime(b.After)) {
		return fmt.Sprintf("%sdeprecated alias behaves differently: err %q vs %q, out %q vs %q", head, a.Err.Text, b.Err.Text, a.Out, b.Out)
	}
	return ""
}

func TestC03MdAliases(t *testing.T) {
	col := coll("C03", "md-aliases")
	col.Rule = "rapid: forest x {text, json, walk, mkdir, verify}: deprecated Output/Mkdir/Verify/Walk vs *FromMarkdown"
	rapid.Check(t, func(rt *rapid.T) {
		f := genForest(forestParams{maxNodes: 10, maxDepth: 6, names: sampled(validElemPool())}).Draw(rt, "forest")
		if hasDupRoots(f) {
			uniqRoots(f)
		}
		c := c03MdAlias{Forest: f, Op: rapid.SampledFrom([]string{"text", "json", "walk", "mkdir", "verify"}).Draw(rt, "op"), Exts: genExts(extSources(f)).Draw(rt, "exts")}
		col.eval(f.Count() >= 3, hash64(f.String(), c.Op, fmt.Sprint(c.Exts)), "op:"+c.Op)
		col.sample(func() any { return c })
		if msg := c03MdAliasCheck(c); msg != "" {
			violation(rt, "C03", "c03m", c, msg)
		}
	})
}
