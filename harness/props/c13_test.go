package props

import (
	"bytes"
	"context"
	"errors"
	"fmt"
	"io"
	"os"
	"path/filepath"
	"runtime"
	"strings"
	"sync"
	"testing"
	"time"

	"verif/harness/model"
	"verif/harness/ops"

	"github.com/ddddddO/gtree"
	"github.com/fatih/color"
	"pgregory.net/rapid"
)

// C13 — results depend only on the tree, not on call history or concurrent use (stateful, model-based).

type c13Step struct {
	Kind   string        `json:"kind"` // newroot add output json walk walkiter drymkdir mkdir verify markdown repeat
	Tree   int           `json:"tree,omitempty"`
	Node   int           `json:"node,omitempty"`
	Name   string        `json:"name,omitempty"`
	Branch *model.Branch `json:"branch,omitempty"`
	Doc    string        `json:"doc,omitempty"`
	Want   string        `json:"want,omitempty"` // expected text of a "markdown" step (reference renderer)
}

type c13Tree struct {
	nodes  []*gtree.Node
	mnodes []*model.T
	iters  []c13Iter // iterators created earlier and not yet ranged over
}

type c13Iter struct {
	seq    func(func(*gtree.WalkerNode, error) bool)
	branch *model.Branch
}

type c13Machine struct {
	trees       []*c13Tree
	hist        []c13Step
	last        *c13Step
	lastOut     string
	dir         string // scratch for real mkdir
	seq         int
	ops         int // From-Root operations executed
	addsAfterOp bool
	exts        []string
	massive     bool         // From-Root output and walk steps run with WithMassive
	keptErrs    []c13KeptErr  // errors returned by earlier, independent From-Markdown calls: their text must not change afterwards
	optArr      []gtree.Option // the caller's option array [WithTargetDir("."), WithEncodeJSON()] with spare capacity: iterator walks get its first element, JSON steps all of it
	massiveOpt  gtree.Option // ONE WithMassive option value, made once and handed to every massive call of the machine (as a caller who builds an option slice once does)
}

func (m *c13Machine) sharedOpts(base []gtree.Option) []gtree.Option {
	if !m.massive {
		return base
	}
	if m.massiveOpt == nil {
		m.massiveOpt = gtree.WithMassive(context.Background())
	}
	return append(base, m.massiveOpt)
}

var errC13Callback = errors.New("verif: c13 callback failure")

type c13KeptErr struct {
	err  error
	text string
	doc  string
}

func (m *c13Machine) optionArray() []gtree.Option {
	if m.optArr == nil {
		m.optArr = append(make([]gtree.Option, 0, 6), gtree.WithTargetDir("."), gtree.WithEncodeJSON())
	}
	return m.optArr
}

type c13History struct {
	Steps   []c13Step `json:"steps"`
	Massive bool      `json:"massive,omitempty"` // output and walk steps use one shared WithMassive option value
}

func init() {
	registerReplay("c13", func(h c13History) string {
		m := &c13Machine{dir: filepath.Join(ops.DefaultEnv.Scratch, "c13replay"), massive: h.Massive}
		defer os.RemoveAll(m.dir)
		for i, s := range h.Steps {
			if msg := m.exec(s); msg != "" {
				return fmt.Sprintf("step %d (%+v): %s\nhistory: %s", i, s, msg, histString(h.Steps))
			}
		}
		return ""
	})
	registerReplay("c13c", c13ConcurrentCheck)
}

func histString(steps []c13Step) string {
	var parts []string
	for _, s := range steps {
		switch s.Kind {
		case "newroot":
			parts = append(parts, fmt.Sprintf("t%d=NewRoot(%q)", s.Tree, s.Name))
		case "add":
			parts = append(parts, fmt.Sprintf("t%d.n%d.Add(%q)", s.Tree, s.Node, s.Name))
		case "markdown":
			parts = append(parts, fmt.Sprintf("OutputFromMarkdown(%q)", s.Doc))
		case "mdfail":
			parts = append(parts, fmt.Sprintf("err%d := OutputFromMarkdown(%q)", len(parts), s.Doc))
		default:
			parts = append(parts, fmt.Sprintf("%s(t%d)", s.Kind, s.Tree))
		}
	}
	return strings.Join(parts, "; ")
}

var colorMu sync.Mutex // color.Output is a process-wide variable of a third-party package

// the extension list every dry-run / mkdir step of a machine passes: ONE slice, reused by all calls, with a repeated
// entry; the library must neither depend on nor modify caller-owned option data between calls
func (m *c13Machine) extList() []string {
	if m.exts == nil {
		m.exts = []string{"b", "x.y", "b"}
	}
	return m.exts
}

// exec performs one step on the real trees and on the model and compares; "" means the invariant holds.
func (m *c13Machine) exec(s c13Step) string {
	msg := m.exec1(s)
	if msg == "" {
		for _, k := range m.keptErrs {
			if got := k.err.Error(); got != k.text {
				return fmt.Sprintf("the error an earlier, independent OutputFromMarkdown(%q) returned read %q then and reads %q now", k.doc, k.text, got)
			}
		}
	}
	return msg
}

func (m *c13Machine) exec1(s c13Step) string {
	m.hist = append(m.hist, s)
	if s.Kind == "repeat" {
		if m.last == nil {
			return ""
		}
		prev := m.lastOut
		st := *m.last
		msg := m.run(st)
		if msg != "" {
			return "repeated " + st.Kind + ": " + msg
		}
		if m.lastOut != prev {
			return fmt.Sprintf("repeating %s on the same tree gave a different result:\nfirst:\n%s\nsecond:\n%s", st.Kind, prev, m.lastOut)
		}
		return ""
	}
	return m.run(s)
}

func (m *c13Machine) run(s c13Step) string {
	switch s.Kind {
	case "newroot":
		m.trees = append(m.trees, &c13Tree{nodes: []*gtree.Node{gtree.NewRoot(s.Name)}, mnodes: []*model.T{{Name: s.Name}}})
		return ""
	case "add":
		if s.Tree >= len(m.trees) {
			return ""
		}
		t := m.trees[s.Tree]
		if s.Node >= len(t.nodes) {
			return ""
		}
		if m.ops > 0 {
			m.addsAfterOp = true
		}
		if m.last != nil && m.last.Tree == s.Tree {
			m.last = nil // the tree changes: "repeat" no longer applies
		}
		got := t.nodes[s.Node].Add(s.Name)
		p := t.mnodes[s.Node]
		for i, k := range p.Kids {
			if k.Name == s.Name {
				// existing: must be the identical node
				for j, mn := range t.mnodes {
					if mn == k {
						if t.nodes[j] != got {
							return fmt.Sprintf("Add(%q) under a parent that already has that child (#%d) returned a different node", s.Name, i)
						}
						return ""
					}
				}
			}
		}
		mn := &model.T{Name: s.Name}
		p.Kids = append(p.Kids, mn)
		t.nodes = append(t.nodes, got)
		t.mnodes = append(t.mnodes, mn)
		return ""
	case "mdverify":
		// an option-less VerifyFromMarkdown in between (it only reads the current directory); whatever it returns
		gtree.VerifyFromMarkdown(strings.NewReader(s.Doc))
		return ""
	case "mdfail":
		// an independent From-Markdown call that fails on a malformed row; the caller keeps the error value
		err := gtree.OutputFromMarkdown(io.Discard, strings.NewReader(s.Doc))
		if err == nil {
			return fmt.Sprintf("OutputFromMarkdown(%q) returned nil for a malformed document", s.Doc)
		}
		m.keptErrs = append(m.keptErrs, c13KeptErr{err: err, text: err.Error(), doc: s.Doc})
		return ""
	case "markdown":
		var buf bytes.Buffer
		if err := gtree.OutputFromMarkdown(&buf, strings.NewReader(s.Doc)); err != nil {
			return fmt.Sprintf("OutputFromMarkdown(%q) in between failed: %v (it succeeds when run alone / first)", s.Doc, err)
		}
		if s.Want != "" && buf.String() != s.Want {
			return fmt.Sprintf("OutputFromMarkdown(%q) in between printed\n%swant\n%s", s.Doc, buf.String(), s.Want)
		}
		return ""
	}
	if s.Tree >= len(m.trees) {
		return ""
	}
	t := m.trees[s.Tree]
	root, mroot := t.nodes[0], t.mnodes[0]
	mf := model.Forest{mroot}
	b := branchOrDefault(s.Branch)
	opt := ops.Opts{Branch: s.Branch}
	m.ops++
	m.last = &s
	validNames := mf.AllNames(model.ValidElem)
	switch s.Kind {
	case "itercreate":
		// creating the iterator is not the operation; ranging over it later is
		iopts := opt.Options(nil, "")
		if s.Branch == nil {
			iopts = m.optionArray()[:1] // a prefix of the caller's longer option array (spare capacity behind it)
		}
		t.iters = append(t.iters, c13Iter{seq: gtree.WalkIterFromRoot(root, iopts...), branch: s.Branch})
		m.last = nil
		return ""
	case "iterrange":
		if len(t.iters) == 0 {
			m.last = nil
			return ""
		}
		it := t.iters[0]
		t.iters = t.iters[1:]
		var rows []string
		for wn, err := range it.seq {
			if err != nil {
				return "ranging over an iterator created earlier: " + err.Error()
			}
			rows = append(rows, wn.Row()+"|"+wn.Path())
		}
		_, facts := model.Render(mf, branchOrDefault(it.branch))
		var want []string
		for _, f := range facts {
			p := f.Path
			if !validNames {
				p = ""
			}
			want = append(want, f.Row+"|"+p)
		}
		if !validNames {
			for i := range rows {
				rows[i] = rows[i][:strings.LastIndex(rows[i], "|")+1]
			}
		}
		m.lastOut = strings.Join(rows, "\n")
		m.last = nil
		if strings.Join(rows, "\n") != strings.Join(want, "\n") {
			return fmt.Sprintf("ranging over an iterator that was created earlier (tree is now %s): %s", mroot, firstDiff(strings.Join(rows, "\n"), strings.Join(want, "\n")))
		}
		return ""
	}
	if !validNames {
		switch s.Kind {
		case "drymkdir", "mkdir", "verify":
			// a name that is not a path element: these operations must refuse the tree, whatever happened before
			var err error
			colorMu.Lock()
			old := color.Output
			color.Output = io.Discard
			switch s.Kind {
			case "drymkdir":
				err = gtree.MkdirFromRoot(root, gtree.WithDryRun(), gtree.WithFileExtensions(m.extList()))
			case "mkdir":
				m.seq++
				// the same absolute path in every step (emptied in between): a result must not depend on what an earlier call
				// made there
				target := filepath.Join(m.dir, "t")
				os.MkdirAll(target, 0o755)
				err = gtree.MkdirFromRoot(root, gtree.WithTargetDir(target))
				os.RemoveAll(target)
			case "verify":
				err = gtree.VerifyFromRoot(root, gtree.WithTargetDir(filepath.Join(m.dir, "nowhere")))
			}
			color.Output = old
			colorMu.Unlock()
			m.lastOut = "rejected"
			if err == nil {
				return fmt.Sprintf("%s accepted tree %s although it has a name that is not a path element", s.Kind, mroot)
			}
			return ""
		}
	}
	switch s.Kind {
	case "failwalk":
		// a call that fails (its callback refuses the first node): it must not change what later calls give
		err := gtree.WalkFromRoot(root, func(*gtree.WalkerNode) error { return errC13Callback }, m.sharedOpts(nil)...)
		m.lastOut = fmt.Sprint(err)
		if err != errC13Callback {
			return fmt.Sprintf("WalkFromRoot with a callback that fails at once returned %v", err)
		}
	case "panicwrite", "panicwalk":
		// a call that is torn down by a panic of the caller's own writer / callback, which the caller recovers (the pattern of
		// net/http handlers and worker pools): whatever the library had in flight must not reach later calls
		m.lastOut = func() (out string) {
			defer func() { out = fmt.Sprint("recovered: ", recover()) }()
			if s.Kind == "panicwalk" {
				n := 0
				gtree.WalkFromRoot(root, func(*gtree.WalkerNode) error {
					if n++; n > len(m.trees[s.Tree].nodes)%3 {
						panic("callback gives up")
					}
					return nil
				})
			} else {
				gtree.OutputFromRoot(&panicWriter{after: len(m.trees[s.Tree].nodes) % 3}, root)
			}
			return ""
		}()
	case "output":
		var buf bytes.Buffer
		if err := gtree.OutputFromRoot(&buf, root, m.sharedOpts(opt.Options(context.Background(), ""))...); err != nil {
			return "OutputFromRoot: " + err.Error()
		}
		want, _ := model.Render(mf, b)
		m.lastOut = buf.String()
		if buf.String() != want {
			return fmt.Sprintf("OutputFromRoot of tree %s: %s\ngot:\n%swant:\n%s", mroot, firstDiff(buf.String(), want), buf.String(), want)
		}
	case "json":
		var buf bytes.Buffer
		if err := gtree.OutputFromRoot(&buf, root, m.optionArray()...); err != nil {
			return "OutputFromRoot(json): " + err.Error()
		}
		m.lastOut = buf.String()
		f, err := decodeJSONLines(buf.Bytes())
		if err != nil || !model.EqualForest(f, mf) {
			return fmt.Sprintf("JSON of tree %s decodes to %s (%v)", mroot, f, err)
		}
	case "walk", "walkiter":
		var rows []string
		if s.Kind == "walk" {
			if err := gtree.WalkFromRoot(root, func(wn *gtree.WalkerNode) error { rows = append(rows, wn.Row()+"|"+wn.Path()); return nil }, m.sharedOpts(opt.Options(nil, ""))...); err != nil {
				return "WalkFromRoot: " + err.Error()
			}
		} else {
			iopts := opt.Options(nil, "")
			if s.Branch == nil {
				iopts = m.optionArray()[:1]
			}
			for wn, err := range gtree.WalkIterFromRoot(root, iopts...) {
				if err != nil {
					return "WalkIterFromRoot: " + err.Error()
				}
				rows = append(rows, wn.Row()+"|"+wn.Path())
			}
		}
		_, facts := model.Render(mf, b)
		var want []string
		for _, f := range facts {
			want = append(want, f.Row+"|"+f.Path)
		}
		if !validNames { // Path is defined for path-element names only
			for i := range rows {
				rows[i] = rows[i][:strings.LastIndex(rows[i], "|")]
			}
			for i := range want {
				want[i] = want[i][:strings.LastIndex(want[i], "|")]
			}
		}
		m.lastOut = strings.Join(rows, "\n")
		if strings.Join(rows, "\n") != strings.Join(want, "\n") {
			return fmt.Sprintf("%s of tree %s: %s", s.Kind, mroot, firstDiff(strings.Join(rows, "\n"), strings.Join(want, "\n")))
		}
	case "drymkdir":
		colorMu.Lock()
		var buf bytes.Buffer
		old := color.Output
		color.Output = &buf
		err := gtree.MkdirFromRoot(root, gtree.WithDryRun(), gtree.WithFileExtensions(m.extList()))
		color.Output = old
		colorMu.Unlock()
		if err != nil {
			return "MkdirFromRoot(dry run): " + err.Error()
		}
		if fmt.Sprint(m.exts) != "[b x.y b]" {
			return fmt.Sprintf("the caller's extension slice was modified by the call: %q", m.exts)
		}
		want := strings.Join(model.DryRunReport(mf, model.DefaultBranch, []string{"b", "x.y"}), "")
		m.lastOut = buf.String()
		if buf.String() != want {
			return fmt.Sprintf("dry-run report of tree %s: %s", mroot, firstDiff(buf.String(), want))
		}
	case "verifybad", "verifymissing":
		if !validNames {
			return ""
		}
		target := filepath.Join(m.dir, "t") // the same absolute path as every other verify / mkdir step
		os.MkdirAll(target, 0o755)
		defer os.RemoveAll(target)
		entries := materialize(mf, nil, nil)
		if s.Kind == "verifymissing" {
			if len(entries) < 2 {
				return ""
			}
			entries = entries[:len(entries)-1] // the last node path is not there
		}
		for _, e := range entries {
			os.MkdirAll(filepath.Join(target, e.Path), 0o755)
		}
		if s.Kind == "verifybad" {
			// a directory below the root whose name is not valid UTF-8: whatever verify makes of it (an I/O error of its
			// directory walk, or an extra entry), a strict verify cannot succeed
			os.MkdirAll(filepath.Join(target, mroot.Name, "x\xff"), 0o755)
		}
		err := gtree.VerifyFromRoot(root, gtree.WithTargetDir(target), gtree.WithStrictVerify())
		m.lastOut = s.Kind + ":" + fmt.Sprint(err != nil)
		if err == nil && s.Kind == "verifybad" {
			return fmt.Sprintf("strict VerifyFromRoot of tree %s returned nil although the directory holds an entry that is no node", mroot)
		}
		if err == nil && s.Kind == "verifymissing" {
			return fmt.Sprintf("VerifyFromRoot of tree %s returned nil although the last node path does not exist", mroot)
		}
	case "mkdir", "verify":
		m.seq++
		target := filepath.Join(m.dir, "t") // the same absolute path in every step (emptied in between): no result may depend on what an earlier call made there
		os.MkdirAll(target, 0o755)
		defer os.RemoveAll(target)
		if s.Kind == "verify" {
			for _, e := range materialize(mf, nil, nil) {
				os.MkdirAll(filepath.Join(target, e.Path), 0o755)
			}
			if err := gtree.VerifyFromRoot(root, gtree.WithTargetDir(target), gtree.WithStrictVerify()); err != nil {
				return fmt.Sprintf("VerifyFromRoot of tree %s against its exact materialisation: %v", mroot, err)
			}
			m.lastOut = "verified"
			return ""
		}
		if err := gtree.MkdirFromRoot(root, gtree.WithTargetDir(target), gtree.WithFileExtensions(m.extList())); err != nil {
			return "MkdirFromRoot: " + err.Error()
		}
		snap := ops.Snap(target)
		want := map[string]string{}
		for _, e := range materialize(mf, []string{"b", "x.y"}, nil) {
			want[e.Path] = e.Kind
		}
		got := map[string]string{}
		for p, d := range snap {
			got[p] = ops.Kind(d)
		}
		m.lastOut = snapString(got)
		if snapString(got) != snapString(want) {
			return fmt.Sprintf("MkdirFromRoot of tree %s created\n%swant\n%s", mroot, snapString(got), snapString(want))
		}
	}
	return ""
}

func (m *c13Machine) classes() (nontrivial bool, cl []string) {
	if m.addsAfterOp && m.ops >= 2 {
		cl = append(cl, "build/use/build/use")
		nontrivial = true
	}
	if len(m.trees) >= 2 {
		cl = append(cl, "two-trees-interleaved")
		nontrivial = true
	}
	for _, s := range m.hist {
		if s.Kind == "repeat" {
			cl = append(cl, "repeat")
			break
		}
	}
	return
}

var c13Kinds = []string{"output", "output", "json", "walk", "walkiter", "drymkdir", "mkdir", "verify", "itercreate", "iterrange", "iterrange", "failwalk", "verifybad", "verifymissing", "panicwrite", "panicwalk"}

// names of the machine: mostly tiny (collisions, merges), sometimes not a path element (legal for output and walk)
var c13Names = []string{"a", "b", "ab", "ba", "c", "a", "b", "a/b", "..", "x y", "-"}

func TestC13Machine(t *testing.T) {
	col := coll("C13", "machine")
	col.Rule = "rapid state machine: NewRoot / Add (any node of any live tree, fresh or existing name) / any From-Root operation (text with drawn branch strings, JSON, walk, a walk whose callback fails, iterator walk, dry-run mkdir, real mkdir, strict verify; one machine in four hands ONE WithMassive option value to all its output and walk calls) / OutputFromMarkdown in between / repeat last operation; model forest compared after every step; non-trivial = an Add after a From-Root call followed by another call, or >=2 live trees"
	rapid.Check(t, func(rt *rapid.T) {
		m := &c13Machine{dir: filepath.Join(ops.DefaultEnv.Scratch, "c13"), massive: rapid.IntRange(0, 3).Draw(rt, "massive") == 0}
		defer os.RemoveAll(m.dir)
		step := func(s c13Step) {
			if msg := m.exec(s); msg != "" {
				violation(rt, "C13", "c13", c13History{Steps: m.hist, Massive: m.massive}, fmt.Sprintf("%s\nhistory: %s", msg, histString(m.hist)))
			}
		}
		step(c13Step{Kind: "newroot", Tree: 0, Name: sampled(poolTiny).Draw(rt, "root")})
		rt.Repeat(map[string]func(*rapid.T){
			"newroot": func(rt *rapid.T) {
				if len(m.trees) >= 4 {
					rt.Skip("enough trees")
				}
				step(c13Step{Kind: "newroot", Tree: len(m.trees), Name: sampled(poolTiny).Draw(rt, "root")})
			},
			"add": func(rt *rapid.T) {
				ti := rapid.IntRange(0, len(m.trees)-1).Draw(rt, "tree")
				ni := rapid.IntRange(0, len(m.trees[ti].nodes)-1).Draw(rt, "node")
				step(c13Step{Kind: "add", Tree: ti, Node: ni, Name: sampled(c13Names).Draw(rt, "name")})
			},
			"addLast": func(rt *rapid.T) {
				ti := rapid.IntRange(0, len(m.trees)-1).Draw(rt, "tree")
				step(c13Step{Kind: "add", Tree: ti, Node: len(m.trees[ti].nodes) - 1, Name: sampled(c13Names).Draw(rt, "name")})
			},
			"op": func(rt *rapid.T) {
				ti := rapid.IntRange(0, len(m.trees)-1).Draw(rt, "tree")
				k := rapid.SampledFrom(c13Kinds).Draw(rt, "kind")
				s := c13Step{Kind: k, Tree: ti}
				if k == "output" || k == "walk" || k == "walkiter" || k == "itercreate" {
					s.Branch = genBranch().Draw(rt, "branch")
				}
				step(s)
			},
			"markdown": func(rt *rapid.T) {
				f := genForest(forestParams{maxNodes: 6, maxDepth: 4, names: sampled(c13Names)}).Draw(rt, "mdforest")
				want, _ := model.Render(model.Merge(f), model.DefaultBranch)
				// a different notation every time (unit, tabs, heading roots ...): calls must not inherit anything
				step(c13Step{Kind: "markdown", Doc: model.Spell(f, genSpelling(f.HeadingOK()).Draw(rt, "mdspelling")), Want: want})
			},
			"mdfail": func(rt *rapid.T) {
				m.seq++
				step(c13Step{Kind: "mdfail", Doc: fmt.Sprintf("- a\n  - b\n%s%d no bullet here\n", rapid.SampledFrom([]string{"", " ", "  "}).Draw(rt, "ind"), m.seq)})
			},
			"mdverify": func(rt *rapid.T) {
				f := genForest(forestParams{maxNodes: 4, maxDepth: 3, names: sampled(poolTiny)}).Draw(rt, "vforest")
				step(c13Step{Kind: "mdverify", Doc: model.Spell(f, model.Plain2)})
			},
			"repeat": func(rt *rapid.T) {
				if m.last == nil {
					rt.Skip("nothing to repeat")
				}
				step(c13Step{Kind: "repeat"})
			},
		})
		nt, cl := m.classes()
		if m.massive {
			cl = append(cl, "shared-massive-option")
		}
		col.eval(nt, hash64(histString(m.hist), fmt.Sprint(m.massive)), cl...)
		col.sample(func() any { return histString(m.hist) })
	})
}

// Bounded-exhaustive histories over the alphabet {N, and for tree 0|1: Ra Rb (Add to root), La Lb (Add to the node
// added last), O (OutputFromRoot)} with at most 2 trees; the first step is always N.
func TestC13Exhaustive(t *testing.T) {
	col := coll("C13", "exhaustive")
	maxLen := pick(5, 7)
	col.Rule = fmt.Sprintf("ALL histories of length <=%d (after an initial NewRoot) over {NewRoot, Add a|b to the root of tree 0|1, Add a|b to the last node of tree 0|1, OutputFromRoot(tree 0|1)}, <=2 trees; output compared with the model after every Output step", maxLen)
	c13Enumerate(t, col, maxLen)
	col.Exhaustive = true
}

// c13Enumerate walks the history tree depth-first; each complete history is re-executed from scratch (fresh trees).
func c13Enumerate(t *testing.T, col *collector, maxLen int) {
	type sym struct {
		kind string
		tree int
		name string
		last bool
	}
	var alphabet []sym
	alphabet = append(alphabet, sym{kind: "newroot"})
	for tr := 0; tr < 2; tr++ {
		for _, n := range []string{"a", "b"} {
			alphabet = append(alphabet, sym{"add", tr, n, false}, sym{"add", tr, n, true})
		}
		alphabet = append(alphabet, sym{kind: "output", tree: tr})
	}
	count := 0
	run := func(h []sym) {
		// only histories ending in an Output are evaluated (every prefix ending in Output is its own history)
		if h[len(h)-1].kind != "output" {
			return
		}
		count++
		if count%nshards != shard {
			return
		}
		m := &c13Machine{}
		do := func(st c13Step) {
			if msg := m.exec(st); msg != "" {
				violation(t, "C13", "c13", c13History{Steps: m.hist}, fmt.Sprintf("%s\nhistory: %s", msg, histString(m.hist)))
			}
		}
		do(c13Step{Kind: "newroot", Tree: 0, Name: "r"})
		for _, s := range h {
			switch s.kind {
			case "newroot":
				do(c13Step{Kind: "newroot", Tree: len(m.trees), Name: "r"})
			case "add":
				node := 0
				if s.last {
					node = len(m.trees[s.tree].nodes) - 1
				}
				do(c13Step{Kind: "add", Tree: s.tree, Node: node, Name: s.name})
			case "output":
				do(c13Step{Kind: "output", Tree: s.tree})
			}
		}
		nt, cl := m.classes()
		col.eval(nt, hash64(histString(m.hist)), cl...)
		col.sample(func() any { return histString(m.hist) })
	}
	var walk func(h []sym, ntrees int)
	walk = func(h []sym, ntrees int) {
		if len(h) > 0 {
			run(h)
		}
		if len(h) == maxLen {
			return
		}
		for _, s := range alphabet {
			nt := ntrees
			if s.kind == "newroot" {
				if ntrees >= 2 {
					continue
				}
				nt++
			} else if s.tree >= ntrees {
				continue
			}
			walk(append(append([]sym{}, h...), s), nt)
		}
	}
	walk(nil, 1)
}

// ---- concurrent use -------------------------------------------------------------------------------------------------

type c13Concurrent struct {
	Histories  [][]c13Step `json:"histories"` // one per goroutine, each on its own trees
	Docs       []string    `json:"docs"`      // independent From-Markdown calls, one goroutine each
	DryRun     []bool      `json:"dryRun"`    // per document: OutputFromMarkdown with WithDryRun + extension "b" instead of plain text
	Procs      int         `json:"procs"`
	Massive    bool        `json:"massive,omitempty"`    // every output / walk of the histories uses WithMassive
	DocFile    []bool      `json:"docFile,omitempty"`    // per document: the writer is an open regular file (*os.File) instead of a buffer
	DocMassive []bool      `json:"docMassive,omitempty"` // per document (single root): the call uses WithMassive
	FailFirst  int         `json:"failFirst,omitempty"`  // earlier calls whose reader fails half way (sequential and between the concurrent ones): an independent call's failure must not affect later calls
}

type halfReader struct {
	doc  string
	done bool
}

func (r *halfReader) Read(p []byte) (int, error) {
	if r.done {
		return 0, ops.ErrReader
	}
	r.done = true
	return copy(p, r.doc[:len(r.doc)/2]), nil
}

func failingCall(doc string) (pan string) {
	defer func() {
		if p := recover(); p != nil {
			pan = fmt.Sprint(p)
		}
	}()
	_ = gtree.OutputFromMarkdown(io.Discard, &halfReader{doc: doc})
	return ""
}

func c13ConcurrentCheck(c c13Concurrent) string {
	if c.Procs > 0 {
		old := runtime.GOMAXPROCS(c.Procs)
		defer runtime.GOMAXPROCS(old)
	}
	// expected outputs of the Markdown calls when run alone
	optsOf := func(i int) ops.Opts {
		o := ops.Opts{}
		if i < len(c.DryRun) && c.DryRun[i] {
			o = ops.Opts{DryRun: true, Exts: []string{"b"}}
		}
		o.Massive = i < len(c.DocMassive) && c.DocMassive[i]
		return o
	}
	outputMD := func(doc string, o ops.Opts, i int) (string, error, string) {
		if i >= len(c.DocFile) || !c.DocFile[i] {
			return outputMD(doc, o)
		}
		return outputMDFile(doc, o)
	}
	want := make([]string, len(c.Docs))
	for i, d := range c.Docs {
		out, err, pan := outputMD(d, optsOf(i), i)
		if err != nil || pan != "" {
			return fmt.Sprintf("document %q fails when run alone: %v %s", d, err, pan)
		}
		want[i] = out
	}
	for i := 0; i < c.FailFirst && len(c.Docs) > 0; i++ {
		if pan := failingCall(c.Docs[i%len(c.Docs)]); pan != "" {
			return "OutputFromMarkdown with a failing reader panicked: " + pan
		}
	}
	var wg sync.WaitGroup
	msgs := make([]string, len(c.Histories)+len(c.Docs))
	start := make(chan struct{})
	for g, h := range c.Histories {
		wg.Add(1)
		go func(g int, h []c13Step) {
			defer wg.Done()
			defer func() {
				if p := recover(); p != nil {
					msgs[g] = fmt.Sprintf("goroutine %d panicked: %v", g, p)
				}
			}()
			m := &c13Machine{dir: filepath.Join(ops.DefaultEnv.Scratch, fmt.Sprintf("c13c.%d", g)), massive: c.Massive}
			defer os.RemoveAll(m.dir)
			<-start
			for i, s := range h {
				if msg := m.exec(s); msg != "" {
					msgs[g] = fmt.Sprintf("goroutine %d step %d (%+v): %s\nits history: %s", g, i, s, msg, histString(h))
					return
				}
				runtime.Gosched()
			}
		}(g, h)
	}
	for i, d := range c.Docs {
		wg.Add(1)
		go func(i int, d string) {
			defer wg.Done()
			<-start
			for rep := 0; rep < 3; rep++ {
				out, err, pan := outputMD(d, optsOf(i), i)
				if err != nil || pan != "" || out != want[i] {
					msgs[len(c.Histories)+i] = fmt.Sprintf("concurrent OutputFromMarkdown(%q) gave %q, %v %s; alone it gives %q", d, out, err, pan, want[i])
					return
				}
				if c.FailFirst > 0 && (i+rep)%2 == 0 {
					failingCall(d)
				}
				runtime.Gosched()
			}
		}(i, d)
	}
	close(start)
	wg.Wait()
	for _, m := range msgs {
		if m != "" {
			return m
		}
	}
	return ""
}

func genC13History(rt *rapid.T, label string, n int) []c13Step {
	steps := []c13Step{{Kind: "newroot", Tree: 0, Name: "r"}}
	nodes := []int{1}
	for i := 0; i < n; i++ {
		switch rapid.IntRange(0, 5).Draw(rt, label+"k") {
		case 0:
			if len(nodes) < 2 {
				steps = append(steps, c13Step{Kind: "newroot", Tree: len(nodes), Name: "r"})
				nodes = append(nodes, 1)
				continue
			}
			fallthrough
		case 1, 2, 3:
			ti := rapid.IntRange(0, len(nodes)-1).Draw(rt, label+"t")
			steps = append(steps, c13Step{Kind: "add", Tree: ti, Node: rapid.IntRange(0, nodes[ti]-1).Draw(rt, label+"n"), Name: sampled(poolTiny).Draw(rt, label+"name")})
			nodes[ti]++ // upper bound; exec ignores out-of-range nodes
		default:
			ti := rapid.IntRange(0, len(nodes)-1).Draw(rt, label+"t")
			kind := rapid.SampledFrom([]string{"output", "output", "json", "walk", "walkiter", "failwalk", "mdfail"}).Draw(rt, label+"op")
			if kind == "mdfail" {
				steps = append(steps, c13Step{Kind: kind, Doc: fmt.Sprintf("- a\n %s-%d no bullet\n", label, i)})
				continue
			}
			steps = append(steps, c13Step{Kind: kind, Tree: ti})
		}
	}
	return steps
}

func TestC13Concurrent(t *testing.T) {
	col := coll("C13", "concurrent")
	col.Rule = "rapid: 2..8 goroutines, each building and using its own trees with its own random history (Gosched between steps), plus 0..4 goroutines repeating independent OutputFromMarkdown calls; every result is compared with the model / with the result of the same call run alone; GOMAXPROCS drawn from {1,2,4,16}"
	rapid.Check(t, func(rt *rapid.T) {
		var c c13Concurrent
		g := rapid.SampledFrom([]int{2, 3, 4, 6, 8, 16, 24}).Draw(rt, "goroutines")
		c.Massive = rapid.IntRange(0, 2).Draw(rt, "massive") == 0
		for i := 0; i < g; i++ {
			c.Histories = append(c.Histories, genC13History(rt, fmt.Sprintf("g%d", i), rapid.IntRange(3, 25).Draw(rt, "len")))
		}
		nd := rapid.IntRange(0, 6).Draw(rt, "docs")
		for i := 0; i < nd; i++ {
			massive := rapid.IntRange(0, 2).Draw(rt, "mdmassive") == 0
			f := genForest(forestParams{maxNodes: 8, maxDepth: 4, names: sampled(poolTiny), oneRoot: massive}).Draw(rt, "mdforest")
			c.Docs = append(c.Docs, model.Spell(f, genSpelling(f.HeadingOK()).Draw(rt, "mdspelling")))
			c.DryRun = append(c.DryRun, rapid.Bool().Draw(rt, "dryrun"))
			c.DocMassive = append(c.DocMassive, massive)
			c.DocFile = append(c.DocFile, rapid.IntRange(0, 2).Draw(rt, "file") == 0)
		}
		c.Procs = rapid.SampledFrom([]int{1, 2, 4, 16}).Draw(rt, "procs")
		if nd > 0 && rapid.IntRange(0, 2).Draw(rt, "failing") == 0 {
			c.FailFirst = rapid.IntRange(1, 3).Draw(rt, "failFirst")
		}
		col.eval(true, hash64(fmt.Sprint(c)), fmt.Sprintf("concurrent(%d)", g), fmt.Sprintf("gomaxprocs:%d", c.Procs))
		col.sample(func() any {
			return map[string]any{"goroutines": g, "docs": c.Docs, "first": histString(c.Histories[0])}
		})
		// a schedule-dependent failure may not reproduce: try the same case several times before judging
		if msg := c13ConcurrentCheck(c); msg != "" {
			violation(rt, "C13", "c13c", c, msg)
		}
	})
}

// ---- bursts: many independent massive-mode calls in flight at once -----------------------------------------------------

type c13Burst struct {
	Calls  int    `json:"calls"`  // simultaneous calls
	Kind   string `json:"kind"`   // root | markdown | mixed
	SlowUs int    `json:"slowUs"` // every Write of every call sleeps that long, so that the calls overlap
	Roots  int    `json:"roots"`  // roots per Markdown document
}

func init() { registerReplay("c13b", c13BurstCheck) }

type slowWriter struct {
	buf bytes.Buffer
	us  int
}

func (w *slowWriter) Write(p []byte) (int, error) {
	if w.us > 0 {
		time.Sleep(time.Duration(w.us) * time.Microsecond)
	}
	return w.buf.Write(p)
}

func c13BurstCheck(c c13Burst) string {
	type call struct {
		doc  string
		root *gtree.Node
		want []string // per-root blocks
	}
	calls := make([]call, c.Calls)
	for i := range calls {
		var f model.Forest
		for r := 0; r < c.Roots; r++ {
			f = append(f, &model.T{Name: fmt.Sprintf("r%d-%d", i, r), Kids: []*model.T{{Name: "a", Kids: []*model.T{{Name: "b"}}}, {Name: "c"}}})
		}
		fromRoot := c.Kind == "root" || (c.Kind == "mixed" && i%2 == 0)
		if fromRoot {
			f = f[:1]
			n := gtree.NewRoot(f[0].Name)
			n.Add("a").Add("b")
			n.Add("c")
			calls[i].root = n
		} else {
			calls[i].doc = model.Spell(f, model.Plain2)
		}
		calls[i].want = model.RenderBlocks(f, model.DefaultBranch)
	}
	start := make(chan struct{})
	type result struct {
		out string
		err error
	}
	results := make([]chan result, c.Calls)
	for i := range calls {
		results[i] = make(chan result, 1)
		go func(i int) {
			w := &slowWriter{us: c.SlowUs}
			<-start
			var err error
			if calls[i].root != nil {
				err = gtree.OutputFromRoot(w, calls[i].root, gtree.WithMassive(context.Background()))
			} else {
				err = gtree.OutputFromMarkdown(w, strings.NewReader(calls[i].doc), gtree.WithMassive(context.Background()))
			}
			results[i] <- result{w.buf.String(), err}
		}(i)
	}
	close(start)
	deadline := time.After(30 * time.Second)
	for i := range calls {
		select {
		case r := <-results[i]:
			if r.err != nil {
				return fmt.Sprintf("call %d of %d simultaneous massive-mode calls failed: %v (alone it succeeds)", i, c.Calls, r.err)
			}
			if !isPermutationOfBlocks(r.out, calls[i].want) {
				return fmt.Sprintf("call %d of %d simultaneous massive-mode calls returned nil but wrote %q; alone it writes (in some order) %q", i, c.Calls, r.out, strings.Join(calls[i].want, ""))
			}
		case <-deadline:
			return fmt.Sprintf("call %d of %d simultaneous massive-mode calls has not returned after 30 s (alone it returns at once)", i, c.Calls)
		}
	}
	return ""
}

func TestC13Burst(t *testing.T) {
	col := coll("C13", "burst")
	col.Rule = "bursts of 2..64 independent massive-mode calls (From-Root, From-Markdown with 1..12 roots, mixed) released at the same instant with slow writers so that they overlap; every call must give the result it gives alone"
	n := 0
	for _, calls := range []int{2, 8, 9, 13, 16, 32, 64} {
		for _, kind := range []string{"root", "markdown", "mixed"} {
			for _, slow := range []int{0, 300, 2000} {
				for _, roots := range []int{1, 12} {
					n++
					if n%nshards != shard {
						continue
					}
					c := c13Burst{Calls: calls, Kind: kind, SlowUs: slow, Roots: roots}
					col.eval(calls >= 9, hash64(fmt.Sprint(c)), fmt.Sprintf("burst(%d)", calls), "kind:"+kind)
					col.sample(func() any { return c })
					if msg := c13BurstCheck(c); msg != "" {
						violation(t, "C13", "c13b", c, msg)
					}
				}
			}
		}
	}
	col.Exhaustive = true
}

// panicWriter accepts `after` writes and panics in the next one.
type panicWriter struct{ after, n int }

func (w *panicWriter) Write(p []byte) (int, error) {
	if w.n++; w.n > w.after {
		panic("writer gives up")
	}
	return len(p), nil
}
