package props

import (
	"fmt"
	"testing"
	"unicode/utf8"

	"verif/harness/model"
	"verif/harness/ops"

	"pgregory.net/rapid"
)

// C01 — text output obeys the tree-drawing rule for every forest and branch format.
// Oracle: whole-output equality with the independent top-down renderer on the merged forest, and err == nil.

type c01Case struct {
	Forest  model.Forest   `json:"forest"`
	Sp      model.Spelling `json:"spelling"`
	Branch  *model.Branch  `json:"branch"`
	NoIter  bool           `json:"noIter"`
	NilOpts bool           `json:"nilOpts,omitempty"`
}

func init() { registerReplay("c01", c01Check) }

func c01Check(c c01Case) string {
	doc := model.Spell(c.Forest, c.Sp)
	want, _ := model.Render(model.Merge(c.Forest), branchOrDefault(c.Branch))
	got, err, pan := outputMD(doc, ops.Opts{Branch: c.Branch, NoIter: c.NoIter, NilOpts: c.NilOpts})
	switch {
	case pan != "":
		return fmt.Sprintf("panic on well-formed document %q: %s", doc, pan)
	case err != nil:
		return fmt.Sprintf("well-formed document %q rejected: %v", doc, err)
	case got != want:
		return fmt.Sprintf("document %q (forest %s)\n%s\ngot:\n%swant:\n%s", doc, c.Forest, firstDiff(got, want), got, want)
	}
	return ""
}

func c01Record(col *collector, c c01Case) {
	m := model.Merge(c.Forest)
	nontrivial := m.Depth() >= 3 || len(c.Forest) >= 2 || c.Forest.HasMerge()
	doc := model.Spell(c.Forest, c.Sp)
	cl := forestClasses(c.Forest)
	if c.Sp.Heading {
		cl = append(cl, "heading-roots")
	}
	if c.Branch != nil {
		b := *c.Branch
		if b.MidD == "" || b.MidI == "" || b.LastD == "" || b.LastI == "" {
			cl = append(cl, "empty-branch-string")
		}
		if !isASCII(b.MidD + b.MidI + b.LastD + b.LastI) {
			cl = append(cl, "multibyte-branch")
		}
	} else {
		cl = append(cl, "default-branch")
	}
	if len(doc) > 4096 {
		cl = append(cl, "doc>4KiB")
	}
	if len(doc) > 65536 {
		cl = append(cl, "doc>64KiB")
	}
	if c.NoIter {
		cl = append(cl, "path:slice")
	} else {
		cl = append(cl, "path:iterator")
	}
	for _, n := range c.Forest.Names() {
		if !utf8.ValidString(n) {
			cl = append(cl, "invalid-utf8-name")
			break
		}
	}
	for _, n := range c.Forest.Names() {
		if len(n) > 0 && (n[0] == ' ' || n[len(n)-1] == ' ' || n[0] == '-' || n[0] == '*' || n[0] == '+' || n[0] == '#') {
			cl = append(cl, "name-with-bullet-or-blank-edge")
			break
		}
	}
	col.eval(nontrivial, hash64(doc, fmt.Sprint(c.Branch), fmt.Sprint(c.NoIter)), cl...)
	col.sample(func() any {
		return map[string]any{"doc": doc, "branch": c.Branch, "noIter": c.NoIter, "forest": c.Forest.String()}
	})
}

func isASCII(s string) bool {
	for i := 0; i < len(s); i++ {
		if s[i] >= 0x80 {
			return false
		}
	}
	return true
}

func TestC01Exhaustive(t *testing.T) {
	col := coll("C01", "exhaustive")
	maxN := pick(5, 8)
	col.Rule = fmt.Sprintf("all ordered forests with <=%d nodes x names over {a,b} x %d spellings x %d branch tuples x 2 code paths, plus all forests with one node less over {a, a/a} (names that spell the path of another node)", maxN, len(model.Panel), len(branchPanel))
	i := 0
	model.EnumForests(maxN, []string{"a", "b"}, func(f model.Forest) {
		i++
		if i%nshards != shard {
			return
		}
		for _, sp := range model.Panel {
			if sp.Heading && !f.HeadingOK() {
				continue
			}
			for _, b := range branchPanel {
				for _, noIter := range []bool{false, true} {
					c := c01Case{Forest: f, Sp: sp, Branch: b, NoIter: noIter, NilOpts: i%5 == 0}
					c01Record(col, c)
					if msg := c01Check(c); msg != "" {
						violation(t, "C01", "c01", c, msg)
					}
				}
			}
		}
	})
	// names that spell the path of another node: all forests over {a, a/a} (one spelling, both code paths)
	model.EnumForests(maxN-1, []string{"a", "a/a"}, func(f model.Forest) {
		i++
		if i%nshards != shard {
			return
		}
		for _, noIter := range []bool{false, true} {
			c := c01Case{Forest: f, Sp: model.Plain2, Branch: branchPanel[i%len(branchPanel)], NoIter: noIter}
			c01Record(col, c)
			if msg := c01Check(c); msg != "" {
				violation(t, "C01", "c01", c, msg)
			}
		}
	})
	col.Exhaustive = true
}

func c01Gen() *rapid.Generator[c01Case] {
	return rapid.Custom(func(t *rapid.T) c01Case {
		var names *rapid.Generator[string]
		switch rapid.IntRange(0, 5).Draw(t, "pool") {
		case 5:
			names = sampled(poolSlashTiny)
		case 0:
			names = sampled(poolTiny)
		case 1:
			names = genNameMix(poolTiny, poolSyntax, poolSyntax)
		case 2:
			names = genNameMix(poolUnicode, poolInvalidUTF8, poolTiny)
		case 3:
			names = genNameMix(nil, poolSyntax, poolEncoding)
		default:
			names = genNameMix(poolTiny, poolSyntax, poolUnicode, poolEncoding, poolPathy, nil)
		}
		maxNodes := 14
		if rapid.IntRange(0, 19).Draw(t, "big") == 0 {
			maxNodes = 120
		}
		var f model.Forest
		if d := rapid.IntRange(0, 29).Draw(t, "deep"); d <= 1 {
			f = genDeepForest(names, false).Draw(t, "deepForest")
		} else if d == 3 {
			f = genWideRepeat().Draw(t, "wideRepeat")
		} else if d == 2 {
			f = genWideForest(sampled(poolTiny)).Draw(t, "wideForest") // documents beyond 4 KiB / 64 KiB
		} else {
			f = genForest(forestParams{maxNodes: maxNodes, maxDepth: 12, names: names}).Draw(t, "forest")
		}
		if rapid.IntRange(0, 39).Draw(t, "long") == 0 {
			withLongName(t, f)
		}
		sp := genSpelling(f.HeadingOK()).Draw(t, "spelling")
		maybeMixed(t, &sp, len(f))
		maybeNoGap(t, &sp)
		if f.Depth() > 16 && sp.Unit > 3 {
			sp.Unit = 1 + sp.Unit%3 // keep deep documents small
		}
		return c01Case{Forest: f, Sp: sp, Branch: genBranch().Draw(t, "branch"), NoIter: rapid.Bool().Draw(t, "noIter"), NilOpts: rapid.IntRange(0, 3).Draw(t, "nilOpts") == 0}
	})
}

func TestC01Random(t *testing.T) {
	col := coll("C01", "random")
	col.Rule = "rapid: forests (depth-sequence generator, <=14 nodes, occasionally <=120, depth<=12, 5 name pools incl. bullets, blanks, Unicode, invalid UTF-8) x random spelling x random branch 4-tuple x code path"
	rapid.Check(t, func(rt *rapid.T) {
		c := c01Gen().Draw(rt, "case")
		c01Record(col, c)
		if msg := c01Check(c); msg != "" {
			violation(rt, "C01", "c01", c, msg)
		}
	})
}
