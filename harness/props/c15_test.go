package props

import (
	"fmt"
	"sort"
	"strings"
	"testing"

	"verif/harness/model"
	"verif/harness/ops"

	"pgregory.net/rapid"
)

// C15 — equivalent spellings of a document give byte-identical results (metamorphic; no reference model takes part).

type c15Case struct {
	Forest model.Forest   `json:"forest"`
	Sp1    model.Spelling `json:"sp1"`
	Sp2    model.Spelling `json:"sp2"`
	Op     string         `json:"op"` // text noiter json yaml toml dryrun walk mkdir verify
	Branch *model.Branch  `json:"branch,omitempty"`
	Exts   []string       `json:"exts,omitempty"`
	Strict bool           `json:"strict,omitempty"`
	Drop   []int          `json:"drop,omitempty"`   // pre-order indexes of node paths absent from the verified directory
	Extra  []string       `json:"extra,omitempty"`  // extra entries (relative to the target) present in it
	IOKind int            `json:"ioKind,omitempty"` // dynamic type of the reader both documents are read through (ops.Faults.IOKind: 0, 3, 4, 5, 7)
}

var c15Ops = []string{"text", "noiter", "json", "yaml", "toml", "dryrun", "walk", "mkdir", "verify", "massive-text", "massive-json", "massive-mkdir"}

func init() { registerReplay("c15", c15Check) }

// materialize lists the directory entries that stand for the merged forest (all as directories unless file by exts).
func materialize(f model.Forest, exts []string, drop map[int]bool) []ops.FSEntry {
	var out []ops.FSEntry
	i := 0
	dropped := []string{}
	model.Merge(f).Walk(func(_ int, chain []*model.T) {
		var parts []string
		for _, c := range chain {
			parts = append(parts, c.Name)
		}
		p := strings.Join(parts, "/")
		idx := i
		i++
		for _, d := range dropped {
			if strings.HasPrefix(p, d+"/") {
				return
			}
		}
		if drop[idx] {
			dropped = append(dropped, p)
			return
		}
		kind := "d"
		if model.IsFile(chain[len(chain)-1], exts) {
			kind = "f"
		}
		out = append(out, ops.FSEntry{Path: p, Kind: kind})
	})
	return out
}

func c15Run(c c15Case, sp model.Spelling) *ops.Result {
	cs := ops.NewCase("output", "md")
	cs.Doc = []byte(model.Spell(c.Forest, sp))
	cs.Opts.Branch = c.Branch
	cs.Faults.IOKind = c.IOKind
	if strings.HasPrefix(c.Op, "massive-") {
		cs.Opts.Massive = true
	}
	switch strings.TrimPrefix(c.Op, "massive-") {
	case "noiter":
		cs.Opts.NoIter = true
	case "json", "yaml", "toml":
		cs.Opts.Encode = strings.TrimPrefix(c.Op, "massive-")
	case "dryrun":
		cs.Opts.DryRun = true
		cs.Opts.Exts = c.Exts
	case "walk":
		cs.Op = "walk"
	case "mkdir":
		cs.Op = "mkdir"
		cs.Opts.Exts = c.Exts
		cs.Opts.TargetOpt = "rel"
		cs.FS = &ops.FSSpec{}
	case "verify":
		cs.Op = "verify"
		cs.Opts.Strict = c.Strict
		cs.Opts.TargetOpt = "rel"
		drop := map[int]bool{}
		for _, d := range c.Drop {
			drop[d] = true
		}
		pre := materialize(c.Forest, nil, drop)
		for _, e := range c.Extra {
			pre = append(pre, ops.FSEntry{Path: e, Kind: "d"})
		}
		cs.FS = &ops.FSSpec{Pre: pre}
	}
	if cs.Opts.Massive {
		return pool("plain").Run(&cs)
	}
	return ops.DefaultEnv.Run(&cs)
}

func sortedLines(s string) string {
	l := strings.Split(s, "\n")
	sort.Strings(l)
	return strings.Join(l, "\n")
}

// stripMtime removes the modification time from snapshot descriptors (two runs happen at different instants).
func stripMtime(snap map[string]string) map[string]string {
	out := map[string]string{}
	for k, v := range snap {
		if strings.HasPrefix(v, "f:") {
			if i := strings.LastIndexByte(v, ':'); i > 0 {
				v = v[:i]
			}
		}
		out[k] = v
	}
	return out
}

func snapString(snap map[string]string) string {
	keys := make([]string, 0, len(snap))
	for k := range snap {
		keys = append(keys, k)
	}
	sort.Strings(keys)
	var sb strings.Builder
	for _, k := range keys {
		fmt.Fprintf(&sb, "%s=%s\n", k, snap[k])
	}
	return sb.String()
}

func c15Check(c c15Case) string {
	r1, r2 := c15Run(c, c.Sp1), c15Run(c, c.Sp2)
	d1, d2 := model.Spell(c.Forest, c.Sp1), model.Spell(c.Forest, c.Sp2)
	head := fmt.Sprintf("op=%s\nspelling 1: %q\nspelling 2: %q\n", c.Op, d1, d2)
	if r1.Infra != "" || r2.Infra != "" {
		return ""
	}
	for i, r := range []*ops.Result{r1, r2} {
		if cr := r.Crashed(); cr != "" {
			return fmt.Sprintf("%sspelling %d: %s", head, i+1, cr)
		}
	}
	if r1.Err.Nil != r2.Err.Nil {
		return fmt.Sprintf("%serror for spelling 1: %q, for spelling 2: %q", head, r1.Err.Text, r2.Err.Text)
	}
	e1, e2 := r1.Err.Text, r2.Err.Text
	if c.Op == "verify" {
		e1, e2 = sortedLines(e1), sortedLines(e2) // the listed paths come from a map; order is not part of the result
	}
	if e1 != e2 && !strings.HasPrefix(e1, "incorrect input format") {
		return fmt.Sprintf("%serror texts differ: %q vs %q", head, r1.Err.Text, r2.Err.Text)
	}
	if strings.HasPrefix(c.Op, "massive-") {
		// the order of roots is free in massive mode: compare the outputs as multisets of lines
		r1.Out, r2.Out = []byte(sortedLines(string(r1.Out))), []byte(sortedLines(string(r2.Out)))
	}
	if string(r1.Out) != string(r2.Out) {
		return fmt.Sprintf("%soutputs differ: %s\noutput 1:\n%s\noutput 2:\n%s", head, firstDiff(string(r1.Out), string(r2.Out)), r1.Out, r2.Out)
	}
	if len(r1.Visits) != len(r2.Visits) {
		return fmt.Sprintf("%swalk visited %d vs %d nodes", head, len(r1.Visits), len(r2.Visits))
	}
	for i := range r1.Visits {
		if r1.Visits[i] != r2.Visits[i] {
			return fmt.Sprintf("%svisit %d differs: %+v vs %+v", head, i, r1.Visits[i], r2.Visits[i])
		}
	}
	if c.Op == "mkdir" || c.Op == "verify" || c.Op == "massive-mkdir" {
		a1, a2 := snapString(stripMtime(r1.After)), snapString(stripMtime(r2.After))
		if a1 != a2 {
			return fmt.Sprintf("%sfilesystem after the call differs:\n--- 1\n%s--- 2\n%s", head, a1, a2)
		}
	}
	return ""
}

func spellingDims(a, b model.Spelling) []string {
	var d []string
	if a.Tab != b.Tab {
		d = append(d, "tab<->space")
	}
	if a.Unit != b.Unit {
		d = append(d, "unit")
	}
	if a.Bullets != b.Bullets {
		d = append(d, "bullets")
	}
	if a.Heading != b.Heading {
		d = append(d, "heading<->list-roots")
	}
	if a.Heading && a.HeadingFrom > 0 || b.Heading && b.HeadingFrom > 0 {
		d = append(d, "mixed(list-roots-then-heading-roots)")
	}
	if fmt.Sprint(a.Blank, a.Trail) != fmt.Sprint(b.Blank, b.Trail) {
		d = append(d, "blank-lines")
	}
	if fmt.Sprint(a.CRLF) != fmt.Sprint(b.CRLF) {
		d = append(d, "CRLF<->LF")
	}
	if a.NoFinalN != b.NoFinalN {
		d = append(d, "final-newline")
	}
	return d
}

func c15Record(col *collector, c c15Case) {
	dims := spellingDims(c.Sp1, c.Sp2)
	m := model.Merge(c.Forest)
	nontrivial := len(dims) >= 2 && (m.Depth() >= 3 || len(m) >= 2)
	cl := []string{"op:" + c.Op}
	for _, d := range dims {
		cl = append(cl, "dim:"+d)
	}
	col.eval(nontrivial, hash64(model.Spell(c.Forest, c.Sp1), model.Spell(c.Forest, c.Sp2), c.Op, fmt.Sprint(c.Branch, c.Exts, c.Strict, c.Drop, c.Extra, c.IOKind)), cl...)
	col.sample(func() any {
		return map[string]any{"doc1": model.Spell(c.Forest, c.Sp1), "doc2": model.Spell(c.Forest, c.Sp2), "op": c.Op}
	})
}

func TestC15Exhaustive(t *testing.T) {
	col := coll("C15", "exhaustive")
	maxN := pick(4, 7)
	col.Rule = fmt.Sprintf("all forests <=%d nodes over {a,b} x all 15 pairs of the 6-spelling panel x rotating operation (text, noiter, json, yaml, toml, dryrun, walk; mkdir/verify every 8th), plus for forests of >=2 roots every split point k of the mixed notation (first k roots as list items, the rest as # headings) against the plain spelling", maxN)
	i, rot := 0, 0
	model.EnumForests(maxN, []string{"a", "b"}, func(f model.Forest) {
		i++
		if i%nshards != shard {
			return
		}
		for a := 0; a < len(model.Panel); a++ {
			for b := a + 1; b < len(model.Panel); b++ {
				rot++
				op := c15Ops[rot%7]
				if rot%8 == 0 {
					op = c15Ops[7+rot/8%2]
				}
				if op == "toml" && len(f) != 1 {
					op = "text"
				}
				if (op == "mkdir" || op == "verify") && hasDupRoots(f) {
					op = "walk"
				}
				c := c15Case{Forest: f, Sp1: model.Panel[a], Sp2: model.Panel[b], Op: op, Exts: []string{"b"}, Strict: rot%3 == 0}
				if op == "verify" {
					c.Drop = []int{rot % f.Count()}
					c.Extra = []string{"zz"}
				}
				c15Record(col, c)
				if msg := c15Check(c); msg != "" {
					violation(t, "C15", "c15", c, msg)
				}
			}
		}
		// the mixed notation: the first k roots as list items, the others as headings, against the plain list spelling
		for k := 1; k < len(f); k++ {
			rot++
			op := []string{"text", "walk", "json", "noiter", "dryrun"}[rot%5]
			c := c15Case{Forest: f, Sp1: model.Plain2, Sp2: model.Spelling{Unit: 2 + rot%2*2, Heading: true, HeadingFrom: k, Hashes: []int{1 + rot%2}}, Op: op, Exts: []string{"b"}}
			c15Record(col, c)
			if msg := c15Check(c); msg != "" {
				violation(t, "C15", "c15", c, msg)
			}
		}
	})
	col.Exhaustive = true
}

func hasDupRoots(f model.Forest) bool {
	seen := map[string]bool{}
	for _, r := range f {
		if seen[r.Name] {
			return true
		}
		seen[r.Name] = true
	}
	return false
}

func validElemPool() []string {
	var out []string
	for _, p := range [][]string{poolTiny, poolPathy, poolSyntax, poolUnicode} {
		for _, n := range p {
			if model.ValidElem(n) && model.NameOKForItem(n) {
				out = append(out, n)
			}
		}
	}
	return out
}

func c15Gen() *rapid.Generator[c15Case] {
	return rapid.Custom(func(t *rapid.T) c15Case {
		op := rapid.SampledFrom(c15Ops).Draw(t, "op")
		fsOp := op == "mkdir" || op == "verify" || op == "dryrun" || op == "massive-mkdir"
		var names *rapid.Generator[string]
		if fsOp {
			names = sampled(validElemPool())
		} else {
			names = genNameMix(poolTiny, poolSyntax, poolUnicode, poolEncoding, nil)
		}
		fp := forestParams{maxNodes: 14, maxDepth: 8, names: names, oneRoot: op == "toml"}
		f := genForest(fp).Draw(t, "forest")
		if (op == "mkdir" || op == "verify" || op == "massive-mkdir") && hasDupRoots(f) {
			uniqRoots(f)
		}
		if !fsOp && rapid.IntRange(0, 39).Draw(t, "long") == 0 {
			withLongName(t, f)
		}
		if !fsOp && rapid.IntRange(0, 24).Draw(t, "oneRow") == 0 {
			// the whole input is ONE row, with and without its line terminator, read through a reader that can tell its length
			n := rapid.SampledFrom([]int{100, 4095, 4096, 5000, 65000, 65534, 65535, 65536, 65540, 70000, 200000}).Draw(t, "rowLen")
			c := c15Case{Forest: model.Forest{{Name: strings.Repeat("r", n)}}, Op: op, IOKind: rapid.SampledFrom([]int{3, 7, 0}).Draw(t, "lenReader")}
			c.Sp1 = model.Spelling{Unit: 2, NoFinalN: true}
			c.Sp2 = model.Spelling{Unit: 2}
			return c
		}
		c := c15Case{Forest: f, Op: op}
		c.IOKind = rapid.SampledFrom([]int{0, 0, 0, 3, 4, 5, 7}).Draw(t, "ioKind")
		c.Sp1 = genSpelling(f.HeadingOK()).Draw(t, "sp1")
		c.Sp2 = genSpelling(f.HeadingOK()).Draw(t, "sp2")
		if !strings.HasPrefix(op, "massive") && len(f) >= 2 {
			// the mixed notation: the first roots as list items, the later ones as headings (in massive mode such documents are
			// the known finding C10/massive-mixed-roots)
			maybeMixed(t, &c.Sp1, len(f))
			maybeMixed(t, &c.Sp2, len(f))
		}
		switch op {
		case "text", "noiter", "walk":
			c.Branch = genBranch().Draw(t, "branch")
		case "dryrun", "mkdir", "massive-mkdir":
			c.Exts = genExts(extSources(f)).Draw(t, "exts")
		case "verify":
			c.Strict = rapid.Bool().Draw(t, "strict")
			c.Drop = rapid.SliceOfN(rapid.IntRange(0, f.Count()-1), 0, 3).Draw(t, "drop")
			c.Extra = rapid.SliceOfN(rapid.SampledFrom([]string{"zz", f[0].Name + "/zz", f[0].Name + "/zz/y", "q/r"}), 0, 2).Draw(t, "extra")
		}
		return c
	})
}

func TestC15Random(t *testing.T) {
	col := coll("C15", "random")
	col.Rule = "rapid: one forest, two independently drawn spellings (unit, tabs, bullets per line, heading roots incl. the mixed notation list-roots-then-heading-roots, blank lines, CRLF, final newline) x operation; non-trivial = spellings differ in >=2 dimensions and the forest has depth>=3 or >=2 roots"
	rapid.Check(t, func(rt *rapid.T) {
		c := c15Gen().Draw(rt, "case")
		c15Record(col, c)
		if msg := c15Check(c); msg != "" {
			violation(rt, "C15", "c15", c, msg)
		}
	})
}
