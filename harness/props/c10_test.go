package props

import (
	"bytes"
	"fmt"
	"sort"
	"strings"
	"testing"

	"verif/harness/model"
	"verif/harness/ops"

	"pgregory.net/rapid"
)

// C10 — massive mode is observationally the simple mode up to the order of roots (differential, under perturbed
// schedules). The simple-mode run is the reference; no model takes part, so malformed and mutated documents are in scope.

type c10Case struct {
	Doc     []byte        `json:"doc"`
	Op      string        `json:"op"` // text json yaml dryrun walk mkdir verify
	Branch  *model.Branch `json:"branch,omitempty"`
	Exts    []string      `json:"exts,omitempty"`
	Strict  bool          `json:"strict,omitempty"`
	Pre     []ops.FSEntry `json:"pre,omitempty"` // directory state for mkdir / verify
	Sched   ops.Sched     `json:"sched"`
	Origin  string        `json:"origin,omitempty"` // well-formed | injected:<class> | mutated (for the evidence only)
	Roots   int           `json:"roots,omitempty"`
	Heading bool          `json:"heading,omitempty"`
	Umask   string        `json:"umask,omitempty"`  // mkdir: process umask (octal) during both runs; permission bits are part of the compared file system
	IOKind  int           `json:"ioKind,omitempty"` // massive run: dynamic type of reader/writer (ops.Faults.IOKind)
	Inodes  int           `json:"inodes,omitempty"` // mkdir: the target file system has room for Inodes-1 entries (ENOSPC beyond)
	CbFail  int           `json:"cbFail,omitempty"` // walk: k>0 = the (k-1)-th callback (in call order) returns an error
	CbErr   int           `json:"cbErr,omitempty"`  // which error value it returns (ops.CallbackErr)
}

var c10Ops = []string{"text", "json", "yaml", "dryrun", "walk", "mkdir", "verify"}

func init() { registerReplay("c10", c10Check) }

func c10Make(c c10Case, massive bool) ops.Case {
	cs := ops.NewCase("output", "md")
	cs.Doc = c.Doc
	cs.Opts.Massive = massive
	cs.Opts.Branch = c.Branch
	switch c.Op {
	case "json", "yaml":
		cs.Opts.Encode = c.Op
	case "dryrun":
		cs.Opts.DryRun = true
		cs.Opts.Exts = c.Exts
	case "walk":
		cs.Op = "walk"
		if c.CbFail > 0 {
			cs.Faults.CallbackFailAt = c.CbFail - 1
			cs.Faults.CbErrKind = c.CbErr
		}
	case "mkdir":
		cs.Op = "mkdir"
		cs.Opts.Exts = c.Exts
		cs.FS = &ops.FSSpec{Pre: c.Pre, InodeLimit: c.Inodes, Umask: c.Umask}
	case "verify":
		cs.Op = "verify"
		cs.Opts.Strict = c.Strict
		cs.FS = &ops.FSSpec{Pre: c.Pre}
	}
	if massive {
		cs.Sched = c.Sched
		cs.Faults.IOKind = c.IOKind
	}
	return cs
}

// rootBlocks cuts text into consecutive blocks of the given line counts.
func cutLines(text string, counts []int) ([]string, bool) {
	lines := strings.SplitAfter(text, "\n")
	if len(lines) > 0 && lines[len(lines)-1] == "" {
		lines = lines[:len(lines)-1]
	}
	var out []string
	pos := 0
	for _, n := range counts {
		if pos+n > len(lines) {
			return nil, false
		}
		out = append(out, strings.Join(lines[pos:pos+n], ""))
		pos += n
	}
	return out, pos == len(lines)
}

func c10Check(c c10Case) string {
	sc, mc := c10Make(c, false), c10Make(c, true)
	sres := pool("chroot").Run(&sc)
	mres := pool("chroot").Run(&mc)
	head := fmt.Sprintf("op=%s doc=%q sched=%+v\n", c.Op, truncate(string(c.Doc), 400), c.Sched)
	if sres.Infra != "" || mres.Infra != "" {
		return ""
	}
	if cr := sres.Crashed(); cr != "" {
		return head + "simple mode: " + cr
	}
	if cr := mres.Crashed(); cr != "" {
		return head + "massive mode: " + cr
	}
	if sres.Err.Nil != mres.Err.Nil {
		return fmt.Sprintf("%ssimple mode returned %q but massive mode returned %q\nsimple output:\n%s\nmassive output:\n%s", head, errOrNil(sres), errOrNil(mres), truncate(string(sres.Out), 600), truncate(string(mres.Out), 600))
	}
	if c.Op == "mkdir" {
		a, b := snapString(stripMtime(targetRel(sres.After))), snapString(stripMtime(targetRel(mres.After)))
		if a != b && !sres.Err.Nil && known("C10", "massive-mkdir-not-atomic") {
			coll("C10", "random").excluded("massive-mkdir-not-atomic")
		} else if a != b {
			return fmt.Sprintf("%smkdir leaves different filesystems:\n--- simple\n%s--- massive\n%s", head, a, b)
		}
	}
	if c.Op == "walk" && c.CbFail > 0 && sres.Err.IsCallback && !mres.Err.IsCallback {
		// the document itself may be malformed further on (then either error is a possible first error under some order
		// of the roots); when it is well-formed the callback's error is the only one there is
		plain := c
		plain.CbFail = 0
		pc := c10Make(plain, false)
		if pres := ops.DefaultEnv.Run(&pc); pres.Infra == "" && pres.Err.Nil {
			return fmt.Sprintf("%sthe callback failed at its call %d: simple mode returns the callback's error unchanged, massive mode returned %q", head, c.CbFail-1, errOrNil(mres))
		}
	}
	if !sres.Err.Nil {
		return ""
	}
	switch c.Op {
	case "text", "dryrun":
		// per-root line counts from the simple-mode walk (one visit per output line, roots have level 1)
		w := ops.NewCase("walk", "md")
		w.Doc = c.Doc
		wres := ops.DefaultEnv.Run(&w)
		if !wres.Err.Nil || wres.Crashed() != "" {
			if string(sres.Out) != string(mres.Out) && c.Roots <= 1 {
				return fmt.Sprintf("%soutputs differ: %s", head, firstDiff(string(mres.Out), string(sres.Out)))
			}
			return ""
		}
		var counts []int
		for _, v := range wres.Visits {
			if v.Level == 1 {
				counts = append(counts, 0)
			}
			if len(counts) > 0 {
				counts[len(counts)-1]++
			}
		}
		if c.Op == "dryrun" {
			for i := range counts {
				counts[i] += 2
			}
		}
		blocks, ok := cutLines(string(sres.Out), counts)
		if !ok {
			return "" // the simple output does not have one line per visit (C05's subject), nothing to compare against
		}
		if !isPermutationOfBlocks(string(mres.Out), blocks) {
			return fmt.Sprintf("%smassive output is not a permutation of the simple output's %d per-root blocks (each contiguous and intact)\nsimple:\n%s\nmassive:\n%s", head, len(blocks), truncate(string(sres.Out), 1500), truncate(string(mres.Out), 1500))
		}
	case "json":
		a, b := strings.SplitAfter(string(sres.Out), "\n"), strings.SplitAfter(string(mres.Out), "\n")
		sort.Strings(a)
		sort.Strings(b)
		if strings.Join(a, "") != strings.Join(b, "") {
			return fmt.Sprintf("%sJSON lines differ as multisets\nsimple:\n%s\nmassive:\n%s", head, truncate(string(sres.Out), 1500), truncate(string(mres.Out), 1500))
		}
	case "yaml":
		split := func(b []byte) []string {
			parts := strings.Split("\n"+string(b), "\n---\n")
			for i := range parts {
				parts[i] = strings.TrimSuffix(strings.TrimPrefix(parts[i], "\n"), "\n")
			}
			sort.Strings(parts)
			return parts
		}
		if strings.Join(split(sres.Out), "\x00") != strings.Join(split(mres.Out), "\x00") {
			return fmt.Sprintf("%sYAML documents differ as multisets\nsimple:\n%s\nmassive:\n%s", head, truncate(string(sres.Out), 1500), truncate(string(mres.Out), 1500))
		}
		if bytes.HasPrefix(mres.Out, []byte("---")) {
			return head + "massive YAML output starts with a document separator"
		}
	case "walk":
		// same nodes; order preserved inside a root (roots have distinct names and names are path elements here)
		group := func(vs []ops.Visit) map[string][]string {
			g := map[string][]string{}
			for _, v := range vs {
				root := v.Path
				if i := strings.Index(root, "/"); i >= 0 {
					root = root[:i]
				}
				g[root] = append(g[root], fmt.Sprintf("%s|%s|%d|%s|%v", v.Row, v.Branch, v.Level, v.Path, v.HasChild))
			}
			return g
		}
		gs, gm := group(sres.Visits), group(mres.Visits)
		if len(sres.Visits) != len(mres.Visits) {
			return fmt.Sprintf("%swalk: simple visited %d nodes, massive %d", head, len(sres.Visits), len(mres.Visits))
		}
		dupRoot := false
		seenRoot := map[string]bool{}
		for _, v := range sres.Visits {
			if v.Level == 1 {
				if seenRoot[v.Name] || !model.ValidElem(v.Name) {
					dupRoot = true // (or a root name that does not survive as the first path component)
				}
				seenRoot[v.Name] = true
			} else if !model.ValidElem(v.Name) {
				dupRoot = true // the root component of Path is not reliable: compare as multisets
			}
		}
		if dupRoot {
			gs = map[string][]string{"": nil}
			gm = map[string][]string{"": nil}
			for _, g := range []struct {
				m  map[string][]string
				vs []ops.Visit
			}{{gs, sres.Visits}, {gm, mres.Visits}} {
				for _, v := range g.vs {
					g.m[""] = append(g.m[""], fmt.Sprintf("%s|%s|%d|%s|%v", v.Row, v.Branch, v.Level, v.Path, v.HasChild))
				}
			}
		}
		for r, rows := range gs {
			if dupRoot {
				// equally named roots cannot be told apart in an interleaved visit sequence: compare as multisets
				a, b := append([]string{}, rows...), append([]string{}, gm[r]...)
				sort.Strings(a)
				sort.Strings(b)
				if strings.Join(a, "\n") != strings.Join(b, "\n") {
					return fmt.Sprintf("%swalk: the nodes visited below roots named %q differ:\nsimple:  %q\nmassive: %q", head, r, a, b)
				}
				continue
			}
			if strings.Join(rows, "\n") != strings.Join(gm[r], "\n") {
				return fmt.Sprintf("%swalk: visits below root %q differ (order inside a root must be preserved):\nsimple:  %q\nmassive: %q", head, r, rows, gm[r])
			}
		}
	}
	return ""
}

// mixedIndentChars: some indented row starts with a tab and another one with a space.
func mixedIndentChars(doc []byte) bool {
	tab, space := false, false
	for _, l := range bytes.Split(doc, []byte("\n")) {
		if len(l) == 0 {
			continue
		}
		switch l[0] {
		case '\t':
			tab = true
		case ' ':
			space = true
		}
	}
	return tab && space
}

func c10Excluded(c c10Case) string {
	if known("C10", "massive-mixed-indent-chars") && mixedIndentChars(c.Doc) {
		return "massive-mixed-indent-chars"
	}
	if known("C10", "massive-mixed-roots") && mixedRoots(c.Doc) {
		return "massive-mixed-roots"
	}
	if c.Op == "mkdir" && known("C10", "massive-mkdir-exist-check") {
		// classifier: the document names a root twice
		w := ops.NewCase("walk", "md")
		w.Doc = c.Doc
		wres := ops.DefaultEnv.Run(&w)
		seen := map[string]bool{}
		for _, v := range wres.Visits {
			if v.Level == 1 {
				if seen[v.Name] {
					return "massive-mkdir-exist-check"
				}
				seen[v.Name] = true
			}
		}
	}
	return ""
}

// mixedRoots: a list-item root line occurs before the first # heading line.
func mixedRoots(doc []byte) bool {
	listRoot := false
	for _, l := range bytes.Split(doc, []byte("\n")) {
		if len(l) == 0 {
			continue
		}
		switch l[0] {
		case '-', '*', '+':
			listRoot = true
		case '#':
			return listRoot
		}
	}
	return false
}

func TestC10Known(t *testing.T) {
	col := coll("C10", "known-probes")
	if known("C10", "massive-mixed-roots") {
		c := c10Case{Doc: []byte("- x\n# r\n- a\n"), Op: "text", Roots: 2,
			Sched: ops.Sched{Hook: map[string]ops.HookAct{"gen.recv": {Action: "sleep", N: 20000, First: 1}}}}
		col.eval(false, 0, "known-probe")
		if msg := c10Check(c); msg != "" {
			col.knownFinding("key=massive-mixed-roots a list-item root before the first # heading is parsed with the shared parser's heading flag: '- x\\n# r\\n- a' fails with 'nil stack' in massive mode when the heading block is parsed first, simple mode prints it")
		}
	}
	if known("C10", "massive-mixed-indent-chars") {
		var sb strings.Builder
		for r := 0; r < 6; r++ {
			ind := "\t\t" // two tabs per level in one block, two spaces in the next: the same unit, another character
			if r%2 == 1 {
				ind = "  "
			}
			fmt.Fprintf(&sb, "- r%d\n", r)
			for i := 0; i < 150; i++ {
				fmt.Fprintf(&sb, "%s- n%d\n", ind, i)
			}
		}
		// every worker waits a little after taking its block, so that all six blocks are parsed at the same time
		c := c10Case{Doc: []byte(sb.String()), Op: "text", Roots: 6, Sched: ops.Sched{Hook: map[string]ops.HookAct{"gen.recv": {Action: "sleep", N: 5000}}}}
		col.eval(false, 0, "known-probe")
		for try := 0; try < 30; try++ { // schedule dependent: a few attempts
			if msg := c10Check(c); msg != "" {
				col.knownFinding("key=massive-mixed-indent-chars root blocks indented with tabs in one block and spaces in another are accepted by simple mode but rejected ('incorrect input format') by massive mode when the blocks are parsed interleaved (shared parser state)")
				break
			}
		}
	}
	if known("C10", "massive-mkdir-not-atomic") {
		c := c10Case{Doc: []byte("- a\n- b\n- c\n- d\n- e\n- f\n"), Op: "mkdir", Pre: []ops.FSEntry{{Path: "f", Kind: "d"}}, Roots: 6,
			Sched: ops.Sched{Hook: map[string]ops.HookAct{"mkdir.err": {Action: "sleep", N: 20000}}}}
		col.eval(false, 0, "known-probe")
		mc := c10Make(c, true)
		mres := pool("chroot").Run(&mc)
		if cr, _, _ := ops.Diff(mres.Before, mres.After); len(cr) != 0 && !mres.Err.Nil {
			col.knownFinding("key=massive-mkdir-not-atomic a failing massive-mode Mkdir has already created the roots handled before the failure: with f/ pre-existing, '- a\\n...\\n- f' fails with 'path already exists' but creates other roots; simple mode creates nothing")
		}
	}
	if known("C10", "massive-mkdir-exist-check") {
		c := c10Case{Doc: []byte("- a\n- a\n- a\n- a\n- a\n- a\n- a\n- a\n"), Op: "mkdir", Roots: 8,
			Sched: ops.Sched{Hook: map[string]ops.HookAct{"mkdir.recv": {Action: "sleep", N: 3000, First: 4}}}}
		col.eval(false, 0, "known-probe")
		mc := c10Make(c, true)
		if mres := pool("chroot").Run(&mc); !mres.Err.Nil {
			col.knownFinding("key=massive-mkdir-exist-check a document naming the same root several times ('- a' x 8) fails with 'path already exists' in massive mode under some schedules; simple mode succeeds")
		}
	}
}

var hookPoints = []string{"split.scan", "split.send", "split.last", "gen.recv", "gen.err", "gen.send", "grow.recv", "grow.err", "grow.send", "spread.recv", "spread.locked",
	"fspread.recv", "fspread.err", "cspread.recv", "mkdir.recv", "mkdir.err", "verify.recv", "verify.err", "walk.recv", "walk.err", "handle.wait", "split.err"}

func genSched(t *rapid.T) ops.Sched {
	var s ops.Sched
	s.GOMAXPROCS = rapid.SampledFrom([]int{0, 1, 2, 4, 16}).Draw(t, "gomaxprocs")
	s.ReadChunk = rapid.SampledFrom([]int{0, 0, 1, 3, 64}).Draw(t, "readChunk")
	s.ReaderYield = rapid.SampledFrom([]int{0, 0, 1, 3}).Draw(t, "readerYield")
	s.WriterYieldUs = rapid.SampledFrom([]int{0, 0, -1, 20, 150}).Draw(t, "writerYield")
	s.CbYieldUs = rapid.SampledFrom([]int{0, 0, -1, 20}).Draw(t, "cbYield")
	n := rapid.IntRange(0, 3).Draw(t, "nhooks")
	for i := 0; i < n; i++ {
		if s.Hook == nil {
			s.Hook = map[string]ops.HookAct{}
		}
		p := rapid.SampledFrom(hookPoints).Draw(t, "point")
		if rapid.Bool().Draw(t, "sleep") {
			s.Hook[p] = ops.HookAct{Action: "sleep", N: rapid.SampledFrom([]int{10, 50, 200, 1000}).Draw(t, "us")}
		} else {
			s.Hook[p] = ops.HookAct{Action: "gosched", N: rapid.IntRange(1, 20).Draw(t, "yields")}
		}
	}
	return s
}

func c10Gen() *rapid.Generator[c10Case] {
	return rapid.Custom(func(t *rapid.T) c10Case {
		op := rapid.SampledFrom(c10Ops).Draw(t, "op")
		fsOp := op == "mkdir" || op == "verify" || op == "dryrun"
		var names *rapid.Generator[string]
		if fsOp {
			names = sampled(validElemPool())
		} else if op == "walk" {
			names = rapid.OneOf(sampled(validElemPool()), sampled(validElemPool()), sampled(poolHostilePathItems()), sampled(poolSyntax))
		} else {
			names = genNameMix(poolTiny, poolSyntax, poolUnicode, nil)
		}
		maxNodes := 30
		nroots := rapid.SampledFrom([]int{0, 0, 3, 12, 40}).Draw(t, "manyRoots")
		f := genForest(forestParams{maxNodes: maxNodes, maxDepth: 6, names: names}).Draw(t, "forest")
		for i := 0; i < nroots; i++ { // many roots: more than one block per worker
			f = append(f, f[rapid.IntRange(0, len(f)-1).Draw(t, "copy")].Clone())
		}
		if rapid.IntRange(0, 7).Draw(t, "bigRoots") == 0 {
			// a few roots whose rendered block exceeds common buffer sizes (4 KiB, 64 KiB)
			f = nil
			nb := rapid.IntRange(2, 5).Draw(t, "nbig")
			for i := 0; i < nb; i++ {
				sizes := []int{120, 200}
				if thorough() {
					sizes = []int{120, 300, 1500}
				}
				sz := rapid.SampledFrom(sizes).Draw(t, "bigSize")
				r := &model.T{Name: fmt.Sprintf("big%d", i)}
				cur := r
				for j := 0; j < sz; j++ {
					k := &model.T{Name: fmt.Sprintf("node-%d-%d-with-a-longish-name", i, j)}
					cur.Kids = append(cur.Kids, k)
					if j%7 == 3 {
						cur = k
					}
					if j%31 == 0 {
						cur = r
					}
				}
				f = append(f, r)
			}
		}
		if (fsOp || op == "walk") && hasDupRoots(f) {
			uniqRoots(f)
		}
		sp := genSpelling(f.HeadingOK()).Draw(t, "sp")
		c := c10Case{Op: op, Roots: len(f), Heading: sp.Heading, Origin: "well-formed"}
		if len(f) > 0 && strings.HasPrefix(f[0].Name, "big") || len(f) > 0 && len(f[0].Name) > 3 && strings.Contains(f[0].Name, "big") {
			c.Origin = "well-formed"
		}
		lines := model.SpellLines(f, sp)
		switch rapid.IntRange(0, 9).Draw(t, "origin") {
		case 0, 1:
			inj := model.Injection{Class: rapid.SampledFrom(model.InjClasses).Draw(t, "class"), Line: rapid.IntRange(0, f.Count()-1).Draw(t, "line"), Variant: rapid.IntRange(0, 7).Draw(t, "variant")}
			if nl, _, ok := model.Inject(lines, sp, inj); ok {
				lines = nl
				c.Origin = "injected:" + inj.Class
			}
			c.Doc = []byte(model.Join(lines))
		case 2:
			c.Doc, _ = c12Mutate(t, []byte(model.Join(lines)))
			c.Origin = "mutated"
		case 3:
			// every root block consistently indented, but with its own unit / indent character (malformed as a document)
			var sb strings.Builder
			for _, r := range f {
				rsp := genSpelling(false).Draw(t, "rootSpelling")
				rsp.Blank, rsp.Trail, rsp.NoFinalN = nil, 0, false
				sb.WriteString(model.Spell(model.Forest{r}, rsp))
			}
			c.Doc = []byte(sb.String())
			c.Origin = "per-root-units"
		default:
			c.Doc = []byte(model.Join(lines))
		}
		switch op {
		case "text", "walk":
			c.Branch = genBranch().Draw(t, "branch")
			if op == "walk" && rapid.IntRange(0, 3).Draw(t, "cbFails") == 0 {
				c.CbFail = 1 + rapid.IntRange(0, f.Count()).Draw(t, "cbFailAt")
				c.CbErr = rapid.IntRange(0, 7).Draw(t, "cbErr")
			}
		case "dryrun", "mkdir":
			c.Exts = genExts(extSources(f)).Draw(t, "exts")
			if op == "dryrun" {
				c.Branch = genBranch().Draw(t, "branch")
			}
		case "verify":
			c.Strict = rapid.Bool().Draw(t, "strict")
			drop := map[int]bool{}
			for _, d := range rapid.SliceOfN(rapid.IntRange(0, f.Count()-1), 0, 2).Draw(t, "drop") {
				drop[d] = true
			}
			c.Pre = materialize(f, nil, drop)
			if rapid.Bool().Draw(t, "extra") {
				c.Pre = append(c.Pre, ops.FSEntry{Path: f[0].Name + "/~x", Kind: "d"})
			}
			if rapid.IntRange(0, 2).Draw(t, "symlinks") == 0 && len(c.Pre) > 1 {
				// some entries are symbolic links (to a directory elsewhere, to a file, dangling): whatever verify makes of
				// them, both modes must make the same of them
				n := rapid.IntRange(1, 2).Draw(t, "nlinks")
				for i := 0; i < n; i++ {
					at := rapid.IntRange(1, len(c.Pre)-1).Draw(t, "linkAt")
					target := rapid.SampledFrom([]string{"/nowhere", ".", "..", "~x"}).Draw(t, "linkTo")
					p := c.Pre[at].Path
					var kept []ops.FSEntry
					for _, e := range c.Pre {
						if e.Path != p && !strings.HasPrefix(e.Path, p+"/") {
							kept = append(kept, e)
						}
					}
					c.Pre = append(kept, ops.FSEntry{Path: p, Kind: "l", Data: target})
				}
			}
		}
		if op == "mkdir" {
			c.Umask = rapid.SampledFrom([]string{"", "", "000", "002", "077", "027"}).Draw(t, "umask")
		}
		if op == "mkdir" && mountOK() && rapid.IntRange(0, 4).Draw(t, "fsFull") == 0 {
			c.Inodes = 1 + rapid.IntRange(0, f.Count()).Draw(t, "room")
		}
		if op == "mkdir" && rapid.IntRange(0, 5).Draw(t, "preroot") == 0 {
			c.Inodes = 0
			c.Pre = []ops.FSEntry{{Path: f[rapid.IntRange(0, len(f)-1).Draw(t, "which")].Name, Kind: "d"}}
		}
		c.Sched = genSched(t)
		c.IOKind = rapid.SampledFrom([]int{0, 0, 0, 1, 3, 4, 5, 7}).Draw(t, "ioKind")
		if len(c.Doc) > 8192 && c.Sched.WriterYieldUs > 20 {
			c.Sched.WriterYieldUs = 20 // thousands of writes: keep the case cheap
		}
		return c
	})
}

func c10Record(col *collector, c c10Case, mres *ops.Result) {
	cl := []string{"op:" + c.Op, "origin:" + strings.SplitN(c.Origin, ":", 2)[0]}
	if strings.HasPrefix(c.Origin, "injected:") {
		cl = append(cl, c.Origin)
	}
	if c.Roots >= 11 {
		cl = append(cl, "roots>=11")
	}
	if len(c.Doc) > 8192 {
		cl = append(cl, "doc>8KiB")
	}
	if c.Heading {
		cl = append(cl, "heading-roots")
	}
	if c.CbFail > 0 {
		cl = append(cl, "callback-fails")
	}
	if c.Inodes > 0 {
		cl = append(cl, "file-system-runs-full")
	}
	if c.IOKind != 0 {
		cl = append(cl, fmt.Sprintf("reader-writer-kind:%d", c.IOKind))
	}
	if bytes.HasPrefix(c.Doc, []byte("\n")) || bytes.HasPrefix(c.Doc, []byte(" \n")) || bytes.HasPrefix(c.Doc, []byte("\r\n")) {
		cl = append(cl, "leading-blank-line")
	}
	cl = append(cl, fmt.Sprintf("gomaxprocs:%d", c.Sched.GOMAXPROCS))
	for p := range c.Sched.Hook {
		cl = append(cl, "hook:"+p)
	}
	nontrivial := c.Roots >= 3 || c.Origin != "well-formed"
	col.eval(nontrivial, hash64(string(c.Doc), fmt.Sprint(c.Op, c.Branch, c.Exts, c.Strict, c.Pre, c.Sched, c.CbFail, c.CbErr, c.Inodes, c.IOKind, c.Umask)), cl...)
	col.sample(func() any {
		return map[string]any{"doc": truncate(string(c.Doc), 300), "op": c.Op, "origin": c.Origin, "sched": c.Sched}
	})
}

func TestC10Random(t *testing.T) {
	col := coll("C10", "random")
	col.Rule = "rapid: documents (70% well-formed in any spelling incl. # roots, blank lines, up to ~70 roots; 20% with one injected malformation; 10% byte/line-mutated) x operation (text+branch strings, JSON, YAML, dry-run+extensions, walk, mkdir, verify +-strict) x schedule perturbation (GOMAXPROCS 1/2/4/16, reader chunking and yields, slow/yielding writer and callback, Gosched/sleep injected at up to 3 of 22 pipeline hand-over points via the verif hook); the simple-mode result of the same input is the reference; non-trivial = >=3 roots or a malformed document"
	rapid.Check(t, func(rt *rapid.T) {
		c := c10Gen().Draw(rt, "case")
		if k := c10Excluded(c); k != "" {
			col.excluded(k)
			return
		}
		c10Record(col, c, nil)
		if msg := c10Check(c); msg != "" {
			violation(rt, "C10", "c10", c, msg)
		}
	})
}

// every (operation x spelling panel) on small three-root forests, default schedule and GOMAXPROCS=1
func TestC10Panel(t *testing.T) {
	col := coll("C10", "panel")
	maxN := pick(4, 5)
	col.Rule = fmt.Sprintf("all forests <=%d nodes over {a,b} + two extra roots x spelling panel x every operation x {default schedule, GOMAXPROCS=1 with yields at every send point}", maxN)
	i, rot := 0, 0
	model.EnumForests(maxN, []string{"a", "b"}, func(f0 model.Forest) {
		i++
		if i%nshards != shard {
			return
		}
		f := append(f0.Clone(), &model.T{Name: "x", Kids: []*model.T{{Name: "y"}}}, &model.T{Name: "z"})
		for _, sp := range model.Panel {
			rot++
			op := c10Ops[rot%len(c10Ops)]
			ff := f.Clone()
			if op == "mkdir" || op == "verify" || op == "walk" {
				uniqRoots(ff)
			}
			c := c10Case{Doc: []byte(model.Spell(ff, sp)), Op: op, Roots: len(ff), Heading: sp.Heading, Origin: "well-formed", Exts: []string{"b"}}
			if op == "verify" {
				c.Pre = materialize(ff, nil, map[int]bool{rot % ff.Count(): true})
				c.Strict = rot%2 == 0
			}
			if rot%2 == 0 {
				c.Sched = ops.Sched{GOMAXPROCS: 1, Hook: map[string]ops.HookAct{"split.send": {Action: "gosched", N: 3}, "gen.send": {Action: "gosched", N: 3}, "grow.send": {Action: "gosched", N: 3}}}
			}
			c10Record(col, c, nil)
			if msg := c10Check(c); msg != "" {
				violation(t, "C10", "c10", c, msg)
			}
		}
	})
	col.Exhaustive = true
}

// the fixed hostile inputs of C12, every operation, massive vs simple
func TestC10Constants(t *testing.T) {
	col := coll("C10", "constants")
	col.Rule = fmt.Sprintf("%d fixed hostile inputs x every operation, massive vs simple", len(c12Constants))
	for _, d := range c12Constants {
		for _, op := range c10Ops {
			c := c10Case{Doc: []byte(d), Op: op, Origin: "constant", Exts: []string{"b"}}
			if k := c10Excluded(c); k != "" {
				col.excluded(k)
				continue
			}
			c10Record(col, c, nil)
			if msg := c10Check(c); msg != "" {
				violation(t, "C10", "c10", c, msg)
			}
		}
	}
	col.Exhaustive = true
}

// The same sweep for the differential of C10: a delay at every hand-over point in turn, every operation.
func TestC10HookSweep(t *testing.T) {
	col := coll("C10", "hook-sweep")
	var docs []string
	f := model.Forest{{Name: "a", Kids: []*model.T{{Name: "b", Kids: []*model.T{{Name: "c.b"}}}, {Name: "d"}}}, {Name: "e"}, {Name: "f", Kids: []*model.T{{Name: "g"}}}}
	for i := 0; i < 9; i++ {
		f = append(f, &model.T{Name: fmt.Sprintf("r%d", i), Kids: []*model.T{{Name: "k"}}})
	}
	docs = append(docs, model.Spell(f, model.Plain2), model.Spell(f, model.Panel[3]), model.Spell(f, model.Panel[4]))
	col.Rule = fmt.Sprintf("every one of the %d verif hook points x {sleep 2 ms, 50 yields, sleep on the first arrival only} x every operation x 3 spellings of a 12-root forest; massive vs simple", len(hookPoints))
	n := 0
	for _, p := range hookPoints {
		for _, act := range []ops.HookAct{{Action: "sleep", N: 2000}, {Action: "gosched", N: 50}, {Action: "sleep", N: 3000, First: 1}} {
			for _, op := range c10Ops {
				for di, d := range docs {
					n++
					if n%nshards != shard {
						continue
					}
					if !thorough() && (n/nshards)%3 != 0 { // quick tier: a third of the grid
						continue
					}
					c := c10Case{Doc: []byte(d), Op: op, Roots: len(f), Origin: "well-formed", Exts: []string{"b"}, Heading: di == 1,
						Sched: ops.Sched{Hook: map[string]ops.HookAct{p: act}, GOMAXPROCS: []int{0, 1, 2, 16}[n%4]}}
					if op == "verify" {
						c.Pre = materialize(f, nil, map[int]bool{n % f.Count(): true})
						c.Strict = n%2 == 0
					}
					c10Record(col, c, nil)
					if msg := c10Check(c); msg != "" {
						violation(t, "C10", "c10", c, msg)
					}
				}
			}
		}
	}
	col.Exhaustive = true
}
