package props

import (
	"fmt"
	"sort"
	"strings"
	"testing"

	"verif/harness/model"
	"verif/harness/ops"

	"pgregory.net/rapid"
)

// C02 — Markdown is either rendered completely or rejected: no silent loss.
// Oracle: injected malformation => error (naming the row for format errors); well-formed => nil and the complete
// expected result in the chosen output mode.

type c02Case struct {
	Forest  model.Forest     `json:"forest"`
	Sp      model.Spelling   `json:"spelling"`
	Inj     *model.Injection `json:"inj,omitempty"`
	Mode    string           `json:"mode"` // text noiter json yaml toml dryrun walk
	Massive bool             `json:"massive,omitempty"`
	IOKind  int              `json:"ioKind,omitempty"` // dynamic type of the reader (ops.Faults.IOKind: 0 plain, 3 *bytes.Reader, 5 *bufio.Reader, 7 *bytes.Buffer)
}

func init() { registerReplay("c02", c02Check) }

var c02Modes = []string{"text", "noiter", "json", "yaml", "toml", "dryrun", "walk"}

func c02Build(c c02Case) (doc string, row string, injected bool, ok bool) {
	lines := model.SpellLines(c.Forest, c.Sp)
	if c.Inj != nil {
		nl, r, applicable := model.Inject(lines, c.Sp, *c.Inj)
		if !applicable {
			return "", "", false, false
		}
		if c.Inj.Class == model.InjJump {
			// the line nested too deep is the offending one; find it as the single line that differs
			for i := range nl {
				if i < len(lines) && nl[i].Raw() != lines[i].Raw() {
					r = nl[i].Raw()
				}
			}
		}
		return model.Join(nl), r, true, true
	}
	return model.Join(lines), "", false, true
}

func c02Run(c c02Case, doc string) *ops.Result {
	cs := ops.NewCase("output", "md")
	cs.Faults.IOKind = c.IOKind
	cs.Doc = []byte(doc)
	cs.Opts.Massive = c.Massive
	switch c.Mode {
	case "noiter":
		cs.Opts.NoIter = true
	case "json", "yaml", "toml":
		cs.Opts.Encode = c.Mode
	case "dryrun":
		cs.Opts.DryRun = true
	case "walk":
		cs.Op = "walk"
	}
	if c.Massive {
		return pool("plain").Run(&cs)
	}
	return ops.DefaultEnv.Run(&cs)
}

// isPermutationOfBlocks decides whether got is a concatenation of a permutation of blocks.
func isPermutationOfBlocks(got string, blocks []string) bool {
	total := 0
	for _, b := range blocks {
		total += len(b)
	}
	if total != len(got) {
		return false
	}
	// group identical blocks
	count := map[string]int{}
	for _, b := range blocks {
		count[b]++
	}
	keys := make([]string, 0, len(count))
	for k := range count {
		keys = append(keys, k)
	}
	sort.Slice(keys, func(i, j int) bool {
		return len(keys[i]) > len(keys[j]) || (len(keys[i]) == len(keys[j]) && keys[i] < keys[j])
	})
	memo := map[string]bool{}
	var rec func(pos int) bool
	rec = func(pos int) bool {
		if pos == len(got) {
			for _, v := range count {
				if v != 0 {
					return false
				}
			}
			return true
		}
		var sb strings.Builder
		fmt.Fprintf(&sb, "%d", pos)
		for _, k := range keys {
			fmt.Fprintf(&sb, ",%d", count[k])
		}
		mk := sb.String()
		if v, ok := memo[mk]; ok {
			return v
		}
		res := false
		for _, k := range keys {
			if count[k] > 0 && strings.HasPrefix(got[pos:], k) {
				count[k]--
				if rec(pos + len(k)) {
					count[k]++
					res = true
					break
				}
				count[k]++
			}
		}
		memo[mk] = res
		return res
	}
	return rec(0)
}

// forestMultisetEqual compares two forests as multisets of roots (massive mode may reorder roots).
func forestMultisetEqual(a, b model.Forest) bool {
	if len(a) != len(b) {
		return false
	}
	as, bs := make([]string, len(a)), make([]string, len(b))
	for i := range a {
		as[i] = a[i].String()
		bs[i] = b[i].String()
	}
	sort.Strings(as)
	sort.Strings(bs)
	for i := range as {
		if as[i] != bs[i] {
			return false
		}
	}
	return true
}

// completeResult checks that a nil-error result represents the whole merged forest in the given mode.
func completeResult(mode string, massive bool, merged model.Forest, res *ops.Result) string {
	switch mode {
	case "text", "noiter":
		if !massive {
			want, _ := model.Render(merged, model.DefaultBranch)
			if string(res.Out) != want {
				return firstDiff(string(res.Out), want)
			}
			return ""
		}
		if !isPermutationOfBlocks(string(res.Out), model.RenderBlocks(merged, model.DefaultBranch)) {
			want, _ := model.Render(merged, model.DefaultBranch)
			return fmt.Sprintf("output is not a permutation of the per-root blocks\ngot:\n%swant (some order of roots):\n%s", res.Out, want)
		}
	case "json", "yaml", "toml":
		if mode == "toml" && len(merged) != 1 {
			return "" // TOML is claimed for single-root input only
		}
		f, err := decodeEncoded(mode, res.Out)
		if err != nil {
			return fmt.Sprintf("%s output does not decode: %v\n%s", mode, err, res.Out)
		}
		if massive {
			if !forestMultisetEqual(f, merged) {
				return fmt.Sprintf("%s output decodes to %s, want (any root order) %s", mode, f, merged)
			}
		} else if !model.EqualForest(f, merged) {
			return fmt.Sprintf("%s output decodes to %s, want %s", mode, f, merged)
		}
	case "dryrun":
		blocks := model.DryRunReport(merged, model.DefaultBranch, nil)
		if massive {
			if !isPermutationOfBlocks(string(res.Out), blocks) {
				return fmt.Sprintf("dry-run report is not a permutation of the per-root blocks\ngot:\n%swant (some order):\n%s", res.Out, strings.Join(blocks, ""))
			}
		} else if string(res.Out) != strings.Join(blocks, "") {
			return firstDiff(string(res.Out), strings.Join(blocks, ""))
		}
	case "walk":
		_, facts := model.Render(merged, model.DefaultBranch)
		if massive {
			var got, want []string
			for _, v := range res.Visits {
				got = append(got, v.Row)
			}
			for _, f := range facts {
				want = append(want, f.Row)
			}
			sort.Strings(got)
			sort.Strings(want)
			if strings.Join(got, "\n") != strings.Join(want, "\n") {
				return fmt.Sprintf("walk visited %d nodes, want %d (as multisets of rows they differ)", len(got), len(want))
			}
			return ""
		}
		if len(res.Visits) != len(facts) {
			return fmt.Sprintf("walk visited %d nodes, want %d", len(res.Visits), len(facts))
		}
		for i, v := range res.Visits {
			if v.Row != facts[i].Row {
				return fmt.Sprintf("visit %d has row %q, want %q", i, v.Row, facts[i].Row)
			}
		}
	}
	return ""
}

func c02Check(c c02Case) string {
	doc, row, injected, ok := c02Build(c)
	if !ok {
		return ""
	}
	res := c02Run(c, doc)
	if res.Infra != "" {
		return "" // reported separately
	}
	if cr := res.Crashed(); cr != "" {
		return fmt.Sprintf("document %q mode=%s massive=%v: %s", doc, c.Mode, c.Massive, cr)
	}
	if injected {
		if res.Err.Nil {
			return fmt.Sprintf("document %q has a malformed line (%s at item %d) but the call returned nil (mode=%s massive=%v); output:\n%s",
				doc, c.Inj.Class, c.Inj.Line, c.Mode, c.Massive, res.Out)
		}
		if row != "" && !c.Massive && (c.Mode != "dryrun" || c.Forest.AllNames(model.ValidElem)) {
			want := "incorrect input format: " + row
			if res.Err.Text != want {
				return fmt.Sprintf("document %q: malformed line %q (%s) must be named by the format error; got error %q, want %q", doc, row, c.Inj.Class, res.Err.Text, want)
			}
		}
		return ""
	}
	if !res.Err.Nil && c.Mode == "dryrun" && !c.Forest.AllNames(model.ValidElem) {
		return "" // dry run may reject names that are not valid path elements (C07/C09); not a format question
	}
	if !res.Err.Nil {
		return fmt.Sprintf("well-formed document %q rejected (mode=%s massive=%v): %s", doc, c.Mode, c.Massive, res.Err.Text)
	}
	if msg := completeResult(c.Mode, c.Massive, model.Merge(c.Forest), res); msg != "" {
		return fmt.Sprintf("well-formed document %q accepted but not rendered completely (mode=%s massive=%v): %s", doc, c.Mode, c.Massive, msg)
	}
	return ""
}

// c02Excluded names the known-finding region a case falls in ("" if none).
func c02Excluded(c c02Case) string {
	if c.Massive && c.Sp.Heading && known("C02", "massive-heading-roots") {
		return "massive-heading-roots"
	}
	return ""
}

func c02Record(col *collector, c c02Case) {
	doc, _, injected, ok := c02Build(c)
	if !ok {
		return
	}
	n := c.Forest.Count()
	var cl []string
	nontrivial := false
	if injected {
		pos := "middle"
		if c.Inj.Line == 0 {
			pos = "first"
		} else if c.Inj.Line == n-1 {
			pos = "last"
		}
		cl = append(cl, "inj:"+c.Inj.Class, "inj-pos:"+pos)
		nontrivial = n >= 3 && c.Inj.Line != 0 || c.Inj.Class == model.InjBeforeRoot && n >= 2
	} else {
		cl = append(cl, "well-formed")
		nontrivial = c.Forest.Depth() >= 2
	}
	cl = append(cl, "mode:"+c.Mode)
	if c.Massive {
		cl = append(cl, "massive")
	} else {
		cl = append(cl, "simple")
	}
	col.eval(nontrivial, hash64(doc, c.Mode, fmt.Sprint(c.Massive, c.IOKind)), cl...)
	col.sample(func() any { return map[string]any{"doc": doc, "inj": c.Inj, "mode": c.Mode, "massive": c.Massive} })
}

func c02One(t failer, col *collector, c c02Case) {
	if k := c02Excluded(c); k != "" {
		col.excluded(k)
		return
	}
	c02Record(col, c)
	if msg := c02Check(c); msg != "" {
		violation(t, "C02", "c02", c, msg)
	}
}

func TestC02Exhaustive(t *testing.T) {
	col := coll("C02", "exhaustive")
	maxN := pick(4, 6)
	col.Rule = fmt.Sprintf("all forests <=%d nodes over {a,b} x spelling panel x (well-formed + every malformation class at every line, 2 variants) x (text + one rotating other mode) in simple mode, every 4th also in massive mode", maxN)
	i, rot := 0, 0
	model.EnumForests(maxN, []string{"a", "b"}, func(f model.Forest) {
		i++
		if i%nshards != shard {
			return
		}
		for _, sp := range model.Panel {
			if sp.Heading && !f.HeadingOK() {
				continue
			}
			var injs []*model.Injection
			injs = append(injs, nil)
			n := f.Count()
			for _, cls := range model.InjClasses {
				for line := 0; line < n; line++ {
					nv := 2
					if cls == model.InjNoBullet {
						nv = 4 // x, #, ##, ~ (the random part draws from all marks)
					}
					for v := 0; v < nv; v++ {
						injs = append(injs, &model.Injection{Class: cls, Line: line, Variant: v})
					}
					if cls == model.InjBeforeRoot {
						break
					}
				}
			}
			for _, inj := range injs {
				rot++
				modes := []string{"text", c02Modes[1+rot%(len(c02Modes)-1)]}
				for _, m := range modes {
					c02One(t, col, c02Case{Forest: f, Sp: sp, Inj: inj, Mode: m})
				}
				if rot%4 == 0 {
					c02One(t, col, c02Case{Forest: f, Sp: sp, Inj: inj, Mode: c02Modes[rot/4%len(c02Modes)], Massive: true})
				}
			}
		}
	})
	col.Exhaustive = true
}

func c02Gen() *rapid.Generator[c02Case] {
	return rapid.Custom(func(t *rapid.T) c02Case {
		names := genNameMix(poolTiny, poolTiny, poolSyntax, poolUnicode, nil)
		if rapid.IntRange(0, 5).Draw(t, "slashNames") == 0 {
			names = sampled(poolSlashTiny)
		}
		var f model.Forest
		if rapid.IntRange(0, 39).Draw(t, "wide") == 0 {
			f = genWideForest(sampled(poolTiny)).Draw(t, "wideForest")
		} else {
			f = genForest(forestParams{maxNodes: 16, maxDepth: 8, names: names}).Draw(t, "forest")
		}
		sp := genSpelling(f.HeadingOK()).Draw(t, "spelling")
		c := c02Case{Forest: f, Sp: sp, Mode: rapid.SampledFrom(c02Modes).Draw(t, "mode")}
		c.Massive = rapid.IntRange(0, 3).Draw(t, "massive") == 0
		c.IOKind = rapid.SampledFrom([]int{0, 0, 0, 3, 5, 7}).Draw(t, "ioKind")
		if rapid.IntRange(0, 24).Draw(t, "oneRow") == 0 {
			// the whole input is ONE row, with or without a line terminator, just below the sizes at which buffers are
			// typically sized (4 KiB, 64 KiB), read through a reader that can tell its length
			n := rapid.SampledFrom([]int{100, 4000, 4090, 4094, 4095, 4096, 4100, 5000, 30000, 60000, 65000}).Draw(t, "rowLen")
			c.Forest = model.Forest{{Name: strings.Repeat("r", n)}}
			c.Sp = model.Spelling{Unit: 2, NoFinalN: rapid.Bool().Draw(t, "unterminated")}
			c.IOKind = rapid.SampledFrom([]int{3, 7, 0}).Draw(t, "lenReader")
			return c
		}
		if rapid.IntRange(0, 4).Draw(t, "inject") != 0 {
			c.Inj = &model.Injection{
				Class:   rapid.SampledFrom(model.InjClasses).Draw(t, "class"),
				Line:    rapid.IntRange(0, f.Count()-1).Draw(t, "line"),
				Variant: rapid.IntRange(0, 21).Draw(t, "variant"),
			}
		}
		return c
	})
}

func TestC02Random(t *testing.T) {
	col := coll("C02", "random")
	col.Rule = "rapid: forest (<=16 nodes) x random spelling x (well-formed | one injected malformation: class, line, variant) x output mode x {simple, massive}"
	rapid.Check(t, func(rt *rapid.T) {
		c := c02Gen().Draw(rt, "case")
		if _, _, _, ok := c02Build(c); !ok {
			col.class("injection-not-applicable(skipped)")
			return
		}
		c02One(rt, col, c)
	})
}
