package props

import (
	"testing"

	"pgregory.net/rapid"
)

// Coverage-guided variants of the in-process rapid properties (thorough tier only): rapid.MakeFuzz turns the fuzzer's
// byte string into the entropy source of the structured generators, so native go fuzzing (16 workers, coverage feedback
// from the gtree package) steers the same generators and oracles towards new code paths.

func FuzzC01(f *testing.F) {
	col := coll("C01", "fuzz")
	col.Rule = "native go fuzzing over the bytes that drive the C01 rapid generator (rapid.MakeFuzz)"
	f.Fuzz(rapid.MakeFuzz(func(rt *rapid.T) {
		c := c01Gen().Draw(rt, "case")
		c01Record(col, c)
		if msg := c01Check(c); msg != "" {
			violation(rt, "C01", "c01", c, msg)
		}
	}))
}

func FuzzC02(f *testing.F) {
	col := coll("C02", "fuzz")
	col.Rule = "native go fuzzing over the bytes that drive the C02 rapid generator (simple mode; rapid.MakeFuzz)"
	f.Fuzz(rapid.MakeFuzz(func(rt *rapid.T) {
		c := c02Gen().Draw(rt, "case")
		c.Massive = false
		if _, _, _, ok := c02Build(c); !ok {
			return
		}
		c02One(rt, col, c)
	}))
}

func FuzzC04(f *testing.F) {
	col := coll("C04", "fuzz")
	col.Rule = "native go fuzzing over the bytes that drive the C04 rapid generator (rapid.MakeFuzz)"
	f.Fuzz(rapid.MakeFuzz(func(rt *rapid.T) {
		c := c04Gen().Draw(rt, "case")
		if k := c04Excluded(c); k != "" {
			col.excluded(k)
			return
		}
		c04Record(col, c)
		if msg := c04Check(c); msg != "" {
			violation(rt, "C04", "c04", c, msg)
		}
	}))
}

func FuzzC05(f *testing.F) {
	col := coll("C05", "fuzz")
	col.Rule = "native go fuzzing over the bytes that drive the C05 rapid generator (rapid.MakeFuzz)"
	f.Fuzz(rapid.MakeFuzz(func(rt *rapid.T) {
		c := c05Gen().Draw(rt, "case")
		c05Record(col, c)
		if msg := c05Check(c); msg != "" {
			violation(rt, "C05", "c05", c, msg)
		}
	}))
}

func FuzzC15(f *testing.F) {
	col := coll("C15", "fuzz")
	col.Rule = "native go fuzzing over the bytes that drive the C15 rapid generator (non-massive operations; rapid.MakeFuzz)"
	f.Fuzz(rapid.MakeFuzz(func(rt *rapid.T) {
		c := c15Gen().Draw(rt, "case")
		if len(c.Op) > 8 && c.Op[:8] == "massive-" {
			return
		}
		c15Record(col, c)
		if msg := c15Check(c); msg != "" {
			violation(rt, "C15", "c15", c, msg)
		}
	}))
}

func FuzzC03(f *testing.F) {
	col := coll("C03", "fuzz")
	col.Rule = "native go fuzzing over the bytes that drive the C03 rapid generator (rapid.MakeFuzz)"
	f.Fuzz(rapid.MakeFuzz(func(rt *rapid.T) {
		c := c03Gen().Draw(rt, "case")
		c03Record(col, c)
		if msg := c03Check(c); msg != "" {
			violation(rt, "C03", "c03", c, msg)
		}
	}))
}

// FuzzC10: coverage-guided differential fuzzing of massive vs simple mode on raw documents (each fuzz worker owns a
// chrooted worker process; the operation is chosen by the first byte).
func FuzzC10(f *testing.F) {
	for _, d := range c12Constants {
		if len(d) > 5000 {
			continue
		}
		for op := 0; op < 5; op++ {
			f.Add(append([]byte{byte(op)}, d...))
		}
	}
	col := coll("C10", "fuzz")
	col.Rule = "native go fuzzing: byte 0 selects the operation (text, json, yaml, dryrun, walk), the rest is the document; massive vs simple differential"
	f.Fuzz(func(t *testing.T, data []byte) {
		if len(data) < 1 {
			return
		}
		c := c10Case{Op: []string{"text", "json", "yaml", "dryrun", "walk"}[int(data[0])%5], Doc: data[1:], Origin: "fuzz"}
		if k := c10Excluded(c); k != "" {
			return
		}
		col.eval(true, hash64(string(data)), "fuzz:"+c.Op)
		if msg := c10Check(c); msg != "" {
			violation(t, "C10", "c10", c, msg)
		}
	})
}
