package props

import (
	"bytes"
	"fmt"
	"strings"
	"testing"

	"verif/harness/model"
	"verif/harness/ops"

	"pgregory.net/rapid"
)

// C07 — Mkdir never escapes the target directory and validates names first. Runs in a chrooted worker process, so
// that ".." chains of any length are harmless for the sandbox and every effect outside the target is observable.

type c07Case struct {
	Forest  model.Forest `json:"forest"`
	Entry   string       `json:"entry"` // md | root
	DryRun  bool         `json:"dryRun,omitempty"`
	Massive bool         `json:"massive,omitempty"`
	Exts    []string     `json:"exts,omitempty"`
	Missing bool         `json:"missing,omitempty"` // target directory does not exist beforehand
	PreOps  []string     `json:"preOps,omitempty"`  // From-Root: earlier operations on the same node tree (must not weaken validation)
	Again   int          `json:"again,omitempty"`   // From-Root with PreOps: the last Again nodes are added after those operations
	Target  string       `json:"target,omitempty"`  // spelling of the target option: "" absolute, rel (./target from its parent), slash (trailing /)
	Reader  int          `json:"reader,omitempty"`  // From-Markdown: dynamic type / position of the reader (ops.Faults.IOKind: 0, 3, 4, 5, 8, 9)
}

func init() { registerReplay("c07", c07Check) }

// mustReject: the name cannot be a single path element on any system.
func mustReject(name string) string {
	switch {
	case name == "":
		return "empty"
	case name == ".":
		return "dot"
	case name == "..":
		return "dotdot"
	case strings.Contains(name, "/"):
		return "slash"
	case strings.Contains(name, "\x00"):
		return "nul"
	}
	return ""
}

func c07Kinds(f model.Forest) (kinds []string, positions []string) {
	f.Walk(func(_ int, chain []*model.T) {
		n := chain[len(chain)-1]
		if k := mustReject(n.Name); k != "" {
			kinds = append(kinds, k)
			switch {
			case len(chain) == 1:
				positions = append(positions, "root")
			case len(n.Kids) == 0:
				positions = append(positions, "leaf")
			default:
				positions = append(positions, "inner")
			}
		}
	})
	return
}

func c07Check(c c07Case) string {
	cs := ops.NewCase("mkdir", c.Entry)
	if c.Entry == "md" || c.Entry == "mdalias" {
		cs.Doc = []byte(model.Spell(c.Forest, model.Plain2))
	} else {
		cs.Root = &c.Forest[0].Name
		cs.Prog = preorderProgram(model.Merge(c.Forest)[0])
		cs.PreOps = c.PreOps
		if c.Again > 0 && c.Again < len(cs.Prog) && len(c.PreOps) > 0 {
			cs.MidProg = cs.Prog[len(cs.Prog)-c.Again:]
			cs.Prog = cs.Prog[:len(cs.Prog)-c.Again]
		}
	}
	if c.Entry == "md" || c.Entry == "mdalias" {
		cs.Faults.IOKind = c.Reader
	}
	cs.Opts.DryRun = c.DryRun
	cs.Opts.Massive = c.Massive
	cs.Opts.Exts = c.Exts
	cs.FS = &ops.FSSpec{TargetMissing: c.Missing}
	cs.Opts.TargetOpt = c.Target
	res := pool("chroot").Run(&cs)
	head := fmt.Sprintf("forest %s entry=%s dryRun=%v massive=%v exts=%q\n", c.Forest, c.Entry, c.DryRun, c.Massive, c.Exts)
	if res.Infra != "" {
		return ""
	}
	if cr := res.Crashed(); cr != "" {
		return head + cr
	}
	created, removed, changed := ops.Diff(res.Before, res.After)
	// confinement: the snapshot covers the whole chroot; everything outside <jail>/work/target must be untouched
	inside := func(p string) bool {
		i := strings.Index(p, "/")
		if i < 0 {
			return false
		}
		rest := p[i+1:]
		return rest == ops.JailTarget || strings.HasPrefix(rest, ops.JailTarget+"/")
	}
	for _, p := range append(append(append([]string{}, created...), removed...), changed...) {
		if !inside(p) {
			return fmt.Sprintf("%san entry outside the target directory was touched: %q (created %v removed %v changed %v)", head, p, created, removed, changed)
		}
	}
	kinds, _ := c07Kinds(c.Forest)
	// (whether a dry run is pure is the subject of C09, not of C07)
	if len(kinds) > 0 {
		if res.Err.Nil {
			return fmt.Sprintf("%sthe tree contains a name that is not a single valid path element (%v) but the call succeeded; created %v", head, kinds, created)
		}
		if !c.Massive && len(created) != 0 {
			return fmt.Sprintf("%sthe tree was rejected (%s) but entries had already been created: %v", head, res.Err.Text, created)
		}
		return ""
	}
	if c.Forest.AllNames(model.ValidElem) && !hasDupRoots(c.Forest) {
		if !res.Err.Nil {
			return fmt.Sprintf("%sall names are valid path elements but the call failed: %s", head, res.Err.Text)
		}
	}
	return ""
}

func c07Record(col *collector, c c07Case) {
	kinds, positions := c07Kinds(c.Forest)
	cl := []string{"entry:" + c.Entry}
	if len(c.PreOps) > 0 {
		cl = append(cl, "after-earlier-calls-on-the-same-tree")
	}
	if c.DryRun {
		cl = append(cl, "dry-run")
	} else {
		cl = append(cl, "real")
	}
	if c.Massive {
		cl = append(cl, "massive")
	} else {
		cl = append(cl, "simple")
	}
	for i, k := range kinds {
		cl = append(cl, "hostile:"+k+"@"+positions[i])
	}
	if len(kinds) == 0 {
		cl = append(cl, "benign-control")
	}
	nontrivial := false
	c.Forest.Walk(func(_ int, chain []*model.T) {
		n := chain[len(chain)-1].Name
		if len(chain) >= 2 && (mustReject(n) != "" || strings.Contains(n, "..")) {
			nontrivial = true
		}
	})
	col.eval(nontrivial, hash64(fmt.Sprint(c)), cl...)
	col.sample(func() any {
		return map[string]any{"forest": c.Forest.String(), "entry": c.Entry, "dryRun": c.DryRun, "massive": c.Massive, "exts": c.Exts}
	})
}

var preOpPool = []string{"output", "output-custom", "output-massive", "json", "yaml", "toml", "walk", "walkiter", "walkiter-break", "dryrun", "verify", "verify-massive", "verify-noopt", "mkdir-elsewhere", "mkdir-elsewhere-massive"}

func c07Hostile(entry string) []string {
	var out []string
	md := entry == "md" || entry == "mdalias"
	for _, n := range poolHostilePath {
		if md && !model.NameOKForItem(n) {
			continue
		}
		out = append(out, n)
	}
	if !md {
		out = append(out, "")
	}
	out = append(out, "../../../../../../../../../../escaped", "..", "..", ".", "../outside.txt", "../sib/keep.txt", "../sib", "../../work")
	// hostile names longer than PATH_MAX (4096): the OS refuses the whole path, but only after os.MkdirAll has made its prefixes
	out = append(out, "../../../escaped/"+strings.Repeat("a/", 2100)+"b", "../sib/"+strings.Repeat("x", 5000), strings.Repeat("d/", 2050)+"../../..")
	return out
}

func c07Excluded(c c07Case) string { return "" }

func TestC07Exhaustive(t *testing.T) {
	col := coll("C07", "exhaustive")
	maxN := pick(4, 5)
	col.Rule = fmt.Sprintf("all forest shapes <=%d nodes x every node position holding each hostile name (others benign) x {md, root} x {dry-run, real}; every 3rd also massive, every 4th with a file extension matching the hostile leaf", maxN)
	idx, rot := 0, 0
	for n := 1; n <= maxN; n++ {
		model.EnumShapes(n, func(shape model.Forest) {
			for pos := 0; pos < n; pos++ {
				idx++
				if idx%nshards != shard {
					continue
				}
				for _, entry := range []string{"md", "root"} {
					if entry == "root" && len(shape) != 1 {
						continue
					}
					for _, hn := range dedup(c07Hostile(entry)) {
						f := shape.Clone()
						i := 0
						f.Walk(func(_ int, ch []*model.T) {
							if i == pos {
								ch[len(ch)-1].Name = hn
							} else {
								ch[len(ch)-1].Name = fmt.Sprintf("n%d", i)
							}
							i++
						})
						for _, dry := range []bool{false, true} {
							rot++
							c := c07Case{Forest: f, Entry: entry, DryRun: dry, Massive: rot%3 == 0}
							if entry == "root" && rot%2 == 0 {
								c.PreOps = []string{preOpPool[rot/2%len(preOpPool)]}
							}
							if rot%4 == 0 {
								c.Exts = []string{hn, "d"}
							}
							c07Record(col, c)
							if msg := c07Check(c); msg != "" {
								violation(t, "C07", "c07", c, msg)
							}
						}
					}
				}
			}
		})
	}
	col.Exhaustive = true
}

func TestC07Random(t *testing.T) {
	col := coll("C07", "random")
	col.Rule = "rapid: forests mixing benign and hostile names ('..' chains, '.', '/', absolute-looking, NUL, over-long, invalid UTF-8, empty for From-Root) at any positions x {md, root} x {dry-run, real} x {simple, massive} x extension lists x target present/missing; benign control cases must succeed; non-trivial = a must-reject or '..'-containing name below a root"
	rapid.Check(t, func(rt *rapid.T) {
		entry := rapid.SampledFrom([]string{"md", "root", "md", "root", "mdalias", "alias"}).Draw(rt, "entry")
		var names *rapid.Generator[string]
		if rapid.IntRange(0, 4).Draw(rt, "benign") == 0 {
			names = sampled(validElemPool())
		} else {
			names = rapid.OneOf(sampled(c07Hostile(entry)), sampled(validElemPool()), sampled(validElemPool()))
		}
		f := genForest(forestParams{maxNodes: 10, maxDepth: 6, names: names, oneRoot: entry == "root" || entry == "alias"}).Draw(rt, "forest")
		c := c07Case{Forest: f, Entry: entry, DryRun: rapid.Bool().Draw(rt, "dry"), Massive: rapid.IntRange(0, 2).Draw(rt, "massive") == 0,
			Exts: genExts(f.Names()).Draw(rt, "exts"), Missing: rapid.IntRange(0, 4).Draw(rt, "missing") == 0}
		if (entry == "root" || entry == "alias") && rapid.Bool().Draw(rt, "withPreOps") {
			c.PreOps = rapid.SliceOfN(rapid.SampledFrom(preOpPool), 1, 3).Draw(rt, "preOps")
			c.Again = rapid.IntRange(0, 3).Draw(rt, "again")
		}
		c.Target = rapid.SampledFrom([]string{"", "", "rel", "slash"}).Draw(rt, "target")
		if entry == "md" || entry == "mdalias" {
			c.Reader = rapid.SampledFrom([]int{0, 0, 0, 3, 4, 5, 8, 9}).Draw(rt, "reader")
		}
		c07Record(col, c)
		if msg := c07Check(c); msg != "" {
			violation(rt, "C07", "c07", c, msg)
		}
	})
}

// ---- wide nodes and big inputs ----------------------------------------------------------------------------------------

// c07Wide: one root with W children (every third one with a grandchild), one hostile name among them.
type c07Wide struct {
	W       int    `json:"w"`
	At      int    `json:"at"`   // index of the child that carries (or whose grandchild carries) the hostile name
	Deep    bool   `json:"deep"` // the hostile name is the grandchild
	Hostile string `json:"hostile"`
	Entry   string `json:"entry"`
	Massive bool   `json:"massive,omitempty"`
	DryRun  bool   `json:"dryRun,omitempty"`
	Roots   int    `json:"roots,omitempty"` // further benign roots before and after (md entry)
}

func init() { registerReplay("c07w", c07WideCheck) }

func (c c07Wide) forest() model.Forest {
	r := &model.T{Name: "wide"}
	for i := 0; i < c.W; i++ {
		k := &model.T{Name: fmt.Sprintf("k%04d", i)}
		if i%3 == 0 || (i == c.At && c.Deep) {
			k.Kids = []*model.T{{Name: "g"}}
		}
		if i == c.At {
			if c.Deep {
				k.Kids[0].Name = c.Hostile
			} else {
				k.Name = c.Hostile
			}
		}
		r.Kids = append(r.Kids, k)
	}
	f := model.Forest{r}
	if c.Entry == "md" {
		var pre, post model.Forest
		for i := 0; i < c.Roots; i++ {
			pre = append(pre, &model.T{Name: fmt.Sprintf("pre%d", i), Kids: []*model.T{{Name: "x"}}})
			post = append(post, &model.T{Name: fmt.Sprintf("post%d", i), Kids: []*model.T{{Name: "x"}}})
		}
		f = append(append(pre, r), post...)
	}
	return f
}

func c07WideCheck(c c07Wide) string {
	msg := c07Check(c07Case{Forest: c.forest(), Entry: c.Entry, DryRun: c.DryRun, Massive: c.Massive})
	if msg == "" {
		return ""
	}
	if i := strings.Index(msg, "\n"); i >= 0 {
		msg = msg[i+1:] // the forest is described by the parameters
	}
	return fmt.Sprintf("root with %d children, hostile name %q at child %d (grandchild: %v), entry=%s massive=%v dryRun=%v roots around=%d\n%s", c.W, c.Hostile, c.At, c.Deep, c.Entry, c.Massive, c.DryRun, c.Roots, truncate(msg, 1500))
}

func TestC07Wide(t *testing.T) {
	col := coll("C07", "wide")
	col.Rule = "rapid: one root with W direct children (W around powers of two up to 4100; every third child has a grandchild) and ONE hostile name at a drawn child or grandchild x {md with 0..3 benign roots around, root} x {simple, massive} x {dry-run, real}; oracle as in the random part; non-trivial = always (W >= 200)"
	rapid.Check(t, func(rt *rapid.T) {
		ws := []int{200, 255, 256, 257, 511, 512, 513, 700, 1023, 1024, 1025}
		if thorough() {
			ws = append(ws, 1500, 2047, 2048, 2049, 4096, 4100)
		}
		c := c07Wide{W: rapid.SampledFrom(ws).Draw(rt, "w"), Deep: rapid.Bool().Draw(rt, "deep"), Entry: rapid.SampledFrom([]string{"md", "root"}).Draw(rt, "entry"),
			Massive: rapid.Bool().Draw(rt, "massive"), DryRun: rapid.IntRange(0, 3).Draw(rt, "dry") == 0}
		c.At = rapid.IntRange(0, c.W-1).Draw(rt, "at")
		c.Hostile = rapid.SampledFrom([]string{"..", "../../escaped", ".", "a/../../../x", "/abs"}).Draw(rt, "hostile")
		if c.Entry == "md" {
			c.Roots = rapid.IntRange(0, 3).Draw(rt, "roots")
		}
		quarter := "q" + fmt.Sprint(4*c.At/c.W)
		col.eval(true, hash64(fmt.Sprint(c)), "entry:"+c.Entry, fmt.Sprintf("massive:%v", c.Massive), fmt.Sprintf("w>=512:%v", c.W >= 512), "hostile-in-"+quarter)
		col.sample(func() any { return c })
		if msg := c07WideCheck(c); msg != "" {
			violation(rt, "C07", "c07w", c, msg)
		}
	})
}

// c07Big: a Markdown document of a given size handed over as a reader whose size can be asked for.
type c07Big struct {
	Bytes   int    `json:"bytes"`
	Reader  int    `json:"reader"` // ops IOKind: 0 plain, 3 *bytes.Reader, 4 regular file
	At      int    `json:"at"`     // per mille position of the hostile name
	Hostile string `json:"hostile"`
	Massive bool   `json:"massive,omitempty"`
	Alias   bool   `json:"alias,omitempty"`
}

func init() { registerReplay("c07b", c07BigCheck) }

func (c c07Big) doc() []byte {
	var b bytes.Buffer
	pad := strings.Repeat("n", 180)
	hostileAt := c.Bytes / 1000 * c.At
	done := false
	for i := 0; b.Len() < c.Bytes; i++ {
		fmt.Fprintf(&b, "- r%06d-%s\n", i, pad)
		if !done && b.Len() >= hostileAt {
			fmt.Fprintf(&b, "  - %s\n", c.Hostile)
			done = true
		} else {
			fmt.Fprintf(&b, "  - kid\n")
		}
	}
	return b.Bytes()
}

func c07BigCheck(c c07Big) string {
	cs := ops.NewCase("mkdir", "md")
	if c.Alias {
		cs.Entry = "mdalias"
	}
	cs.Doc = c.doc()
	cs.Opts.Massive = c.Massive
	cs.Faults.IOKind = c.Reader
	cs.FS = &ops.FSSpec{}
	res := pool("chroot").Run(&cs)
	head := fmt.Sprintf("Mkdir from a %d-byte document (reader kind %d, massive=%v, alias=%v) with %q as a child name at %d/1000\n", len(cs.Doc), c.Reader, c.Massive, c.Alias, c.Hostile, c.At)
	if res.Infra != "" {
		return ""
	}
	if cr := res.Crashed(); cr != "" {
		return head + cr
	}
	created, removed, changed := ops.Diff(res.Before, res.After)
	for _, p := range append(append(append([]string{}, created...), removed...), changed...) {
		i := strings.Index(p, "/")
		if i < 0 || !(p[i+1:] == ops.JailTarget || strings.HasPrefix(p[i+1:], ops.JailTarget+"/")) {
			return fmt.Sprintf("%san entry outside the target directory was touched: %q", head, p)
		}
	}
	if res.Err.Nil {
		return head + "the call succeeded"
	}
	if !c.Massive && len(created) != 0 {
		return fmt.Sprintf("%sthe tree was rejected (%s) but %d entries had already been created (first: %q)", head, res.Err.Text, len(created), truncate(created[0], 80))
	}
	return ""
}

func TestC07BigInput(t *testing.T) {
	col := coll("C07", "big-input")
	sizes := []int{70_000, 1<<20 + 1, 4<<20 + 1}
	if thorough() {
		sizes = []int{70_000, 1<<20 + 1, 4<<20 + 1, 9 << 20}
	}
	col.Rule = fmt.Sprintf("documents of %v bytes (thousands of valid roots, one hostile child name early / in the middle / at the very end) x reader kind (opaque reader, *bytes.Reader, regular file) x {simple, massive} x {MkdirFromMarkdown, Mkdir}; without the massive option nothing at all may be created", sizes)
	n := 0
	for _, sz := range sizes {
		for _, rd := range []int{0, 3, 4} {
			for _, at := range []int{1, 500, 999} {
				for _, massive := range []bool{false, true} {
					n++
					if n%nshards != shard {
						continue
					}
					if !thorough() && sz > 100_000 && (at == 1 || massive) {
						continue
					}
					if !thorough() && sz > 2_000_000 && (at != 500 || rd == 0) {
						continue // quick tier: the multi-megabyte size only through the two size-aware readers
					}
					c := c07Big{Bytes: sz, Reader: rd, At: at, Hostile: []string{"../../escaped", "..", "a/b"}[n%3], Massive: massive, Alias: n%5 == 0}
					col.eval(true, hash64(fmt.Sprint(c)), fmt.Sprintf("size:%d", sz), fmt.Sprintf("reader:%d", rd), fmt.Sprintf("massive:%v", massive))
					col.sample(func() any { return c })
					if msg := c07BigCheck(c); msg != "" {
						violation(t, "C07", "c07b", c, msg)
					}
				}
			}
		}
	}
}
