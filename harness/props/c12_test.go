package props

import (
	"bytes"
	"fmt"
	"strings"
	"testing"

	"verif/harness/model"
	"verif/harness/ops"

	"pgregory.net/rapid"
)

// C12 — no input can crash or hang the library; empty or blank-only input produces empty output and nil.
// Every call runs in an isolated worker process (a panic in a pipeline goroutine kills the process; a call that does not
// return is detected by the worker's watchdog), real Mkdir on arbitrary bytes in the chrooted worker.

type c12Case struct {
	Doc     []byte `json:"doc"`
	Op      string `json:"op"` // text noiter json yaml toml dryrun walk mkdir-dry mkdir-real verify
	Massive bool   `json:"massive,omitempty"`
	// option values ("every option combination"): they are passed to every entry point, whether it uses them or not
	Exts    []string      `json:"exts,omitempty"`
	HasExts bool          `json:"hasExts,omitempty"`
	Branch  *model.Branch `json:"branch,omitempty"`
	Strict  bool          `json:"strict,omitempty"`
	SingleP bool          `json:"singleP,omitempty"` // run in a worker process started with GOMAXPROCS=1
	OneCPU  bool          `json:"oneCPU,omitempty"`  // with SingleP: the worker process is confined to one CPU (taskset), so runtime.NumCPU() is 1 too
	Alias   bool          `json:"alias,omitempty"`   // through the deprecated exported function (Output, Walk, Mkdir, Verify)
	Target  string        `json:"target,omitempty"`  // mkdir / verify: spelling of the target directory option ("", slash, rel)
	IOKind  int           `json:"ioKind,omitempty"`  // dynamic type of the reader/writer handed to the library (ops.Faults.IOKind)
}

// extension values an implementation might feed to a pattern matcher, a formatter or a path function
var c12HostileExts = []string{".c++", "*.go", "(", "[", "[a", "a)", "\\", ".go$", "^", "{2,1}", "?", "+", "\xff", "", "\x00", "%s", ".*", "**", "|", "(?P<", strings.Repeat("x", 5000), "/", "..", "\n"}

func genC12Opts(t *rapid.T, c *c12Case) {
	if rapid.IntRange(0, 2).Draw(t, "withExts") == 0 {
		c.HasExts = true
		c.Exts = rapid.SliceOfN(rapid.OneOf(sampled(c12HostileExts), sampled(extPool)), 0, 4).Draw(t, "exts")
	}
	if rapid.IntRange(0, 3).Draw(t, "withBranch") == 0 {
		c.Branch = genBranch().Draw(t, "branch")
	}
	c.Strict = rapid.IntRange(0, 3).Draw(t, "strict") == 0
	c.SingleP = rapid.IntRange(0, 7).Draw(t, "singleP") == 0
	c.OneCPU = c.SingleP && rapid.Bool().Draw(t, "oneCPU")
	c.IOKind = rapid.SampledFrom([]int{0, 0, 0, 1, 3, 4, 5, 7}).Draw(t, "ioKind")
	c.Target = rapid.SampledFrom([]string{"", "", "slash", "rel"}).Draw(t, "target")
	c.Alias = rapid.IntRange(0, 3).Draw(t, "alias") == 0
}

var c12Ops = []string{"text", "noiter", "json", "yaml", "toml", "dryrun", "walk", "mkdir-dry", "mkdir-real", "verify"}

func init() { registerReplay("c12", c12Check) }

func c12Make(c c12Case, op string, massive bool, doc []byte) ops.Case {
	cs := ops.NewCase("output", "md")
	cs.Doc = doc
	cs.Opts.Massive = massive
	cs.Opts.Exts, cs.Opts.HasExts, cs.Opts.Branch, cs.Opts.Strict = c.Exts, c.HasExts, c.Branch, c.Strict
	cs.Faults.IOKind = c.IOKind
	if c.Alias {
		cs.Entry = "mdalias"
	}
	if op == "mkdir-real" || op == "mkdir-dry" || op == "verify" {
		cs.Opts.TargetOpt = c.Target
	}
	switch op {
	case "noiter":
		cs.Opts.NoIter = true
	case "json", "yaml", "toml":
		cs.Opts.Encode = op
	case "dryrun":
		cs.Opts.DryRun = true
	case "walk":
		cs.Op = "walk"
	case "mkdir-dry":
		cs.Op = "mkdir"
		cs.Opts.DryRun = true
		cs.FS = &ops.FSSpec{}
	case "mkdir-real":
		cs.Op = "mkdir"
		cs.FS = &ops.FSSpec{}
	case "verify":
		cs.Op = "verify"
		cs.FS = &ops.FSSpec{}
	}
	return cs
}

func c12Exec(cs *ops.Case, inproc bool, singleP bool, oneCPUs ...bool) *ops.Result {
	oneCPU := len(oneCPUs) > 0 && oneCPUs[0]
	if inproc {
		return ops.DefaultEnv.Run(cs)
	}
	if cs.Op == "mkdir" {
		return pool("chroot").Run(cs)
	}
	if singleP {
		if oneCPU {
			return pool("onecpu").Run(cs)
		}
		return pool("single").Run(cs)
	}
	return pool("plain").Run(cs)
}

func c12Check(c c12Case) string { return c12CheckIn(c, false) }

func c12CheckIn(c c12Case, inproc bool) string {
	cs := c12Make(c, c.Op, c.Massive, c.Doc)
	res := c12Exec(&cs, inproc, c.SingleP, c.OneCPU)
	head := fmt.Sprintf("op=%s massive=%v input=%q\n", c.Op, c.Massive, truncate(string(c.Doc), 300))
	if res.Infra != "" {
		return ""
	}
	if cr := res.Crashed(); cr != "" {
		return head + cr
	}
	// over-long lines are documented to surface as bufio.ErrTooLong, so the blank rule is only asked of inputs whose
	// lines all fit the scanner
	blank := len(bytes.TrimSpace(c.Doc)) == 0 && maxLineLen(c.Doc) < 60000
	if blank {
		if !res.Err.Nil {
			return head + "empty or blank-only input must give nil, got " + res.Err.Text
		}
		if len(res.Out) != 0 || len(res.Color) != 0 || len(res.Visits) != 0 {
			return fmt.Sprintf("%sempty or blank-only input must produce nothing; got output %q, %d callbacks", head, string(res.Out)+string(res.Color), len(res.Visits))
		}
		if cr, rm, ch := ops.Diff(res.Before, res.After); len(cr)+len(rm)+len(ch) != 0 {
			return fmt.Sprintf("%sempty or blank-only input changed the filesystem: %v %v %v", head, cr, rm, ch)
		}
	}
	if c.Massive || blank {
		return ""
	}
	// semantic oracles that are sound for arbitrary bytes (simple mode)
	switch c.Op {
	case "text":
		o := c12Make(c, "noiter", false, c.Doc)
		r2 := c12Exec(&o, inproc, false)
		if r2.Crashed() != "" {
			return head + "noiter path: " + r2.Crashed()
		}
		if r2.Infra == "" && (res.Err.Nil != r2.Err.Nil || (res.Err.Nil && string(res.Out) != string(r2.Out))) {
			return fmt.Sprintf("%sthe iterator path and the slice path disagree: %q/%q vs %q/%q", head, errOrNil(res), res.Out, errOrNil(r2), r2.Out)
		}
		if len(c.Doc) > 0 && c.Doc[len(c.Doc)-1] != '\n' && c.Doc[len(c.Doc)-1] != '\r' {
			o := c12Make(c, "text", false, append(append([]byte{}, c.Doc...), '\n'))
			r3 := c12Exec(&o, inproc, false)
			if r3.Infra == "" && r3.Crashed() == "" && (res.Err.Nil != r3.Err.Nil || string(res.Out) != string(r3.Out)) {
				return fmt.Sprintf("%sappending the missing final newline changes the result: %q/%q vs %q/%q", head, errOrNil(res), res.Out, errOrNil(r3), r3.Out)
			}
		}
	case "walk":
		o := c12Make(c, "noiter", false, c.Doc)
		r2 := c12Exec(&o, inproc, false)
		if r2.Infra == "" && r2.Crashed() == "" && res.Err.Nil && r2.Err.Nil {
			var rows strings.Builder
			for _, v := range res.Visits {
				rows.WriteString(v.Row + "\n")
			}
			if rows.String() != string(r2.Out) {
				return fmt.Sprintf("%swalk rows differ from the text output: %s", head, firstDiff(rows.String(), string(r2.Out)))
			}
		}
	case "json":
		if res.Err.Nil {
			f, err := decodeJSONLines(res.Out)
			plain := c
			plain.Branch = nil // (a branch string may contain line breaks; the lines of the default rendering are counted)
			o := c12Make(plain, "noiter", false, c.Doc)
			r2 := c12Exec(&o, inproc, false)
			if r2.Infra == "" && r2.Crashed() == "" && r2.Err.Nil && validUTF8Lines(c.Doc) {
				if err != nil {
					return fmt.Sprintf("%sJSON output does not decode: %v", head, err)
				}
				// a node per line of the text output, provided no name contains a line break (none can: names are lines)
				if n := strings.Count(string(r2.Out), "\n"); n != f.Count() {
					return fmt.Sprintf("%sJSON output has %d nodes, text output %d lines", head, f.Count(), n)
				}
			}
		}
	}
	return ""
}

func validUTF8Lines(b []byte) bool { return true }

func maxLineLen(b []byte) int {
	m := 0
	for _, l := range bytes.Split(b, []byte("\n")) {
		if len(l) > m {
			m = len(l)
		}
	}
	return m
}

func truncate(s string, n int) string {
	if len(s) > n {
		return s[:n] + fmt.Sprintf("...(%d bytes)", len(s))
	}
	return s
}

// ---- grammar-aware mutation -----------------------------------------------------------------------------------------

var c12Inserts = []string{"\x00", "\xff", "\xc3", "\r", "\f", "\v", " ", " ", " ", "\u0085", "\t", " ", "#", "-", "*", "+", "- ", "# ", "\n", "\n\n", "\r\n", "  ", "-\n", "#\n", "####", string(rune(0xFEFF))}

func c12Mutate(t *rapid.T, doc []byte) ([]byte, []string) {
	var kinds []string
	n := rapid.IntRange(0, 4).Draw(t, "nmut")
	for i := 0; i < n; i++ {
		lines := bytes.SplitAfter(doc, []byte("\n"))
		k := rapid.SampledFrom([]string{"del-line", "dup-line", "swap-lines", "truncate", "insert", "long-line", "only-blanks", "only-bullets", "sharp-run", "indent-first", "mix-indent", "replace-byte", "del-byte", "double-cr", "unicode-blank-line", "no-space-bullet"}).Draw(t, "mut")
		kinds = append(kinds, k)
		li := 0
		if len(lines) > 1 {
			li = rapid.IntRange(0, len(lines)-1).Draw(t, "line")
		}
		switch k {
		case "del-line":
			if len(lines) > 0 {
				lines = append(lines[:li], lines[li+1:]...)
			}
			doc = bytes.Join(lines, nil)
		case "dup-line":
			if len(lines) > 0 {
				lines = append(lines[:li+1], lines[li:]...)
			}
			doc = bytes.Join(lines, nil)
		case "swap-lines":
			if len(lines) > 1 {
				lj := rapid.IntRange(0, len(lines)-1).Draw(t, "line2")
				lines[li], lines[lj] = lines[lj], lines[li]
			}
			doc = bytes.Join(lines, nil)
		case "truncate":
			if len(doc) > 0 {
				doc = doc[:rapid.IntRange(0, len(doc)-1).Draw(t, "cut")]
			}
		case "insert":
			pos := rapid.IntRange(0, len(doc)).Draw(t, "pos")
			ins := rapid.SampledFrom(c12Inserts).Draw(t, "ins")
			doc = append(append(append([]byte{}, doc[:pos]...), ins...), doc[pos:]...)
		case "long-line":
			sz := rapid.SampledFrom([]int{65535, 65536, 65537, 200000, 4096, 70000, 1025, 1500, 3000}).Draw(t, "size")
			pre := rapid.SampledFrom([]string{"- ", "", "  - ", "# ", "\t- ", "x "}).Draw(t, "pre")
			fill := rapid.SampledFrom([]string{"x", "x", "\x80", "\xbf", "\xe3\x81", "é"}).Draw(t, "fill")
			long := []byte(pre + strings.Repeat(fill, sz/len(fill)) + "\n")
			pos := li
			if pos > len(lines) {
				pos = len(lines)
			}
			lines = append(lines[:pos], append([][]byte{long}, lines[pos:]...)...)
			doc = bytes.Join(lines, nil)
		case "only-blanks":
			doc = []byte(rapid.SampledFrom([]string{"", "\n", " ", "\t\n  \n", "\r\n\r\n", "   ", "\n\n\n", " \t \r\n", " \n", "　"}).Draw(t, "blank"))
		case "only-bullets":
			doc = []byte(rapid.SampledFrom([]string{"-", "-\n", "- \n", "*", "+\n", "#", "# \n", "##\n", "-\n-\n", "  -", "- -", "- - -\n", "#-", "-#"}).Draw(t, "bullets"))
		case "sharp-run":
			doc = append([]byte(strings.Repeat("#", rapid.IntRange(1, 40).Draw(t, "nsharp"))+rapid.SampledFrom([]string{"", " ", " a", "\n"}).Draw(t, "aftersharp")), doc...)
		case "indent-first":
			doc = append([]byte(rapid.SampledFrom([]string{"  ", "\t", " ", "    "}).Draw(t, "ind")), doc...)
		case "mix-indent":
			doc = bytes.Replace(doc, []byte("  "), []byte(" \t"), rapid.IntRange(1, 3).Draw(t, "nrep"))
		case "replace-byte":
			if len(doc) > 0 {
				doc = append([]byte{}, doc...)
				doc[rapid.IntRange(0, len(doc)-1).Draw(t, "pos")] = rapid.Byte().Draw(t, "byte")
			}
		case "no-space-bullet":
			// "-name": the parser accepts a bullet that is not followed by a blank
			if li < len(lines) {
				l := lines[li]
				for i := 0; i+1 < len(l); i++ {
					if (l[i] == '-' || l[i] == '*' || l[i] == '+') && l[i+1] == ' ' {
						lines[li] = append(append([]byte{}, l[:i+1]...), l[i+2:]...)
						break
					}
					if l[i] != ' ' && l[i] != '\t' {
						break
					}
				}
			}
			doc = bytes.Join(lines, nil)
		case "unicode-blank-line":
			// a whole row that only Unicode-aware code calls blank (form feed, vertical tab, NBSP, ideographic space, NEL ...)
			blank := []byte(rapid.SampledFrom([]string{"\f", "\v", "\u00a0", "\u3000", "\u0085", "\u2003 \t", "\f\v", "\u2028", "\u1680"}).Draw(t, "ublank") + "\n")
			pos := li
			if pos > len(lines) {
				pos = len(lines)
			}
			if rapid.Bool().Draw(t, "atStart") {
				pos = 0
			}
			lines = append(lines[:pos], append([][]byte{blank}, lines[pos:]...)...)
			doc = bytes.Join(lines, nil)
		case "double-cr":
			// a row that ends in CR before its CRLF/LF terminator (the name keeps one CR)
			if idx := bytes.IndexByte(doc, '\n'); idx >= 0 {
				nl := bytes.Count(doc, []byte("\n"))
				k := rapid.IntRange(0, nl-1).Draw(t, "nlIndex")
				pos := 0
				for i := 0; i <= k; i++ {
					pos += bytes.IndexByte(doc[pos:], '\n') + 1
				}
				doc = append(append(append([]byte{}, doc[:pos-1]...), '\r', '\r', '\n'), doc[pos:]...)
			}
		case "del-byte":
			if len(doc) > 0 {
				p := rapid.IntRange(0, len(doc)-1).Draw(t, "pos")
				doc = append(append([]byte{}, doc[:p]...), doc[p+1:]...)
			}
		}
	}
	return doc, kinds
}

func c12Gen() *rapid.Generator[c12Case] {
	return rapid.Custom(func(t *rapid.T) c12Case {
		names := genNameMix(poolTiny, poolSyntax, poolUnicode, poolInvalidUTF8, poolPathy, poolHostilePathItems(), nil)
		f := genForest(forestParams{maxNodes: 12, maxDepth: 7, names: names}).Draw(t, "forest")
		doc := []byte(model.Spell(f, genSpelling(f.HeadingOK()).Draw(t, "sp")))
		doc, _ = c12Mutate(t, doc)
		c := c12Case{Doc: doc, Op: rapid.SampledFrom(c12Ops).Draw(t, "op"), Massive: rapid.Bool().Draw(t, "massive")}
		genC12Opts(t, &c)
		return c
	})
}

func poolHostilePathItems() []string {
	var out []string
	for _, n := range poolHostilePath {
		if model.NameOKForItem(n) {
			out = append(out, n)
		}
	}
	return out
}

func c12Record(col *collector, c c12Case, kinds []string) {
	cl := []string{"op:" + c.Op}
	if c.Massive {
		cl = append(cl, "massive")
	} else {
		cl = append(cl, "simple")
	}
	for _, k := range kinds {
		cl = append(cl, "mut:"+k)
	}
	if len(bytes.TrimSpace(c.Doc)) == 0 {
		cl = append(cl, "blank-input")
	}
	if c.HasExts {
		cl = append(cl, "with-extension-list")
	}
	if c.Branch != nil {
		cl = append(cl, "custom-branch")
	}
	if c.SingleP {
		cl = append(cl, "process-with-one-P")
	}
	col.eval(len(kinds) > 0 || len(c.Doc) >= 1024, hash64(string(c.Doc), c.Op, fmt.Sprint(c.Massive, c.Exts, c.HasExts, c.Branch, c.Strict, c.SingleP, c.OneCPU, c.IOKind, c.Target, c.Alias)), cl...)
	col.sample(func() any {
		return map[string]any{"doc": truncate(string(c.Doc), 200), "op": c.Op, "massive": c.Massive}
	})
}

func TestC12Mutation(t *testing.T) {
	col := coll("C12", "mutation")
	col.Rule = "rapid: a well-formed spelling of a random forest (names incl. hostile path elements, invalid UTF-8) with 0..4 grammar-aware mutations (delete/duplicate/swap lines, truncate, insert NUL/0xFF/CR/FF/Unicode spaces/bullets, lines of 65535/65536/200000 bytes, only blanks, only bullets, '#' runs, indented first line, tab/space mixes, byte replace/delete) x every entry point incl. real Mkdir in a chroot x {simple, massive} x option values (1/3 with an extension list drawn from regexp/format/path metacharacters, invalid UTF-8, very long values; 1/4 with arbitrary branch strings; strict verify; 1/8 in a worker process started with GOMAXPROCS=1); executed in isolated worker processes with a hang watchdog; non-trivial = a mutation was applied or the input is >=1 kB"
	rapid.Check(t, func(rt *rapid.T) {
		names := genNameMix(poolTiny, poolSyntax, poolUnicode, poolInvalidUTF8, poolPathy, poolHostilePathItems(), nil)
		f := genForest(forestParams{maxNodes: 12, maxDepth: 7, names: names}).Draw(rt, "forest")
		doc := []byte(model.Spell(f, genSpelling(f.HeadingOK()).Draw(rt, "sp")))
		doc, kinds := c12Mutate(rt, doc)
		c := c12Case{Doc: doc, Op: rapid.SampledFrom(c12Ops).Draw(rt, "op"), Massive: rapid.Bool().Draw(rt, "massive")}
		genC12Opts(rt, &c)
		if k := c12Excluded(c); k != "" {
			col.excluded(k)
			return
		}
		c12Record(col, c, kinds)
		if msg := c12Check(c); msg != "" {
			violation(rt, "C12", "c12", c, msg)
		}
	})
}

func c12Excluded(c c12Case) string {
	if c.Op == "mkdir-dry" && known("C09", "md-mkdir-dryrun") {
		// MkdirFromMarkdown ignores WithDryRun (known finding of C09): run it in the chroot like a real mkdir
		return ""
	}
	return ""
}

// Fixed hostile constants, every entry point, both modes (the seconds-long replay tier of C12).
var c12Constants = []string{"", "\n", " ", "\t", "\r\n", "   \n\t\n", "-", "- ", "-\n", "#", "# ", "#\n", "##", "*", "+", "  - a", "\t- a", "  - a\n- b", "- a\n      - b", "- a\n  - b\n      - c\n  - d",
	"a", "x - y", "\x00", "\xff\xfe", "- \x00", "- a\x00b\n  - c", "# a\n- b\n  - c\n# d\n- e", "\n\n- a\n\n  - b\n\n", "- a\r\n  - b\r\n", "- a\r  - b\r", "-a", "-  a", "- a\n - b\n  - c\n   - d",
	"- a\n\t- b\n  - c", "- a\n  - b\n\t- c", "# a\n## b\n### c", "#a", "# #", "- #", "- a\n# b\n- c\n  - d", string(rune(0xFEFF)) + "- a\n  - b", "- a\n  - b\n - c", strings.Repeat("- a\n", 50),
	strings.Repeat(" ", 70000), "- " + strings.Repeat("x", 70000), strings.Repeat("- a\n", 3) + "- " + strings.Repeat("y", 65536) + "\n- b\n", "- a\n" + strings.Repeat("  ", 40) + "- deep",
	"\f", "\v\n", "\u3000\n", "\u00a0\n- a\n  - b\n", "\f\n- a\n", "\u0085\n\u2028\n", "- a\n\f\n- b\n", "\u00a0", strings.Repeat("\x80", 1500), "x " + strings.Repeat("\xbf", 2000) + "\n- a\n", "- a\n  x" + strings.Repeat("\x80", 1100), "- " + strings.Repeat("L", 256) + "\n  - k\n", "- a\n  - b\n-c\n  - d\n", "-a\n-b\n  -c\n", "*a\n+b\n", "- a\r\r\n  - b\r\r\n- c\r\n", "# a\r\r\n- b\r\n", "- ..\n  - ..\n    - ..", "- /\n  - /", "- a\n  - ../../../x", "- .\n  - .", "- a/b", "-\t-\t-", "* + -", "+ * #", "- a\n  * b\n    + c\n  + d\n* e"}

func TestC12Constants(t *testing.T) {
	col := coll("C12", "constants")
	col.Rule = fmt.Sprintf("%d fixed hostile inputs x every entry point x {simple, massive}, rotating through hostile extension-list values (regexp/format/path metacharacters, invalid UTF-8, 5000 bytes), hostile branch strings and a worker process started with GOMAXPROCS=1", len(c12Constants))
	n := 0
	for _, d := range c12Constants {
		for _, op := range c12Ops {
			for _, massive := range []bool{false, true} {
				n++
				c := c12Case{Doc: []byte(d), Op: op, Massive: massive, SingleP: n%4 == 0, OneCPU: n%8 == 0, Alias: n%7 == 0}
				if n%3 == 0 {
					// rotate through the hostile extension values, two at a time
					c.HasExts = true
					c.Exts = []string{c12HostileExts[n/3%len(c12HostileExts)], c12HostileExts[(n/3+7)%len(c12HostileExts)]}
				}
				if n%5 == 0 {
					c.Branch = &model.Branch{MidD: "%s", MidI: "", LastD: "\n", LastI: "\xff"}
				}
				c12Record(col, c, []string{"constant"})
				if msg := c12Check(c); msg != "" {
					violation(t, "C12", "c12", c, msg)
				}
			}
		}
	}
	col.Exhaustive = true
}

// ---- native coverage-guided fuzzing (thorough tier only) --------------------------------------------------------------

func c12FromBytes(data []byte) c12Case {
	if len(data) < 2 {
		return c12Case{Op: "text", Doc: data}
	}
	// real Mkdir is excluded here (a fuzz worker cannot confine itself in a chroot); it is driven from the rapid side
	opsNoReal := []string{"text", "noiter", "json", "yaml", "toml", "dryrun", "walk", "verify", "text", "json"}
	c := c12Case{Op: opsNoReal[int(data[0])%len(opsNoReal)], Massive: data[1]%2 == 1, Doc: data[2:]}
	if data[1]&2 != 0 {
		// an extension list of one hostile value (selected by the upper bits) and one ordinary one
		c.HasExts = true
		c.Exts = []string{c12HostileExts[int(data[1]>>3)%len(c12HostileExts)], ".go"}
	}
	if data[1]&4 != 0 {
		c.Branch = &model.Branch{MidD: "%s", MidI: "|", LastD: "\\", LastI: ""}
	}
	return c
}

func FuzzC12(f *testing.F) {
	for _, d := range c12Constants {
		if len(d) > 5000 {
			continue
		}
		for op := 0; op < 10; op++ {
			f.Add(append([]byte{byte(op), byte(op / 2 % 2)}, d...))
		}
	}
	col := coll("C12", "fuzz")
	col.Rule = "native go fuzzing (coverage-guided): byte 0 selects the entry point, byte 1 the mode, the rest is the document; in-process with the semantic oracles of the rapid part"
	f.Fuzz(func(t *testing.T, data []byte) {
		c := c12FromBytes(data)
		col.eval(true, hash64(string(data)), "fuzz:"+c.Op)
		if msg := c12CheckIn(c, true); msg != "" {
			violation(t, "C12", "c12", c, msg)
		}
	})
}
