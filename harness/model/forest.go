// Package model holds the reference models the oracles are written against. Everything here is derived from the
// property statements (properties.jsonl), not from the gtree sources, and uses different algorithms (top-down
// recursion with an explicit prefix instead of gtree's bottom-up parent walk).
package model

import (
	"strings"
)

// T is one node of an ordered tree; a document is a Forest.
type T struct {
	Name string
	Kids []*T
}

type Forest []*T

func (t *T) Clone() *T {
	c := &T{Name: t.Name}
	for _, k := range t.Kids {
		c.Kids = append(c.Kids, k.Clone())
	}
	return c
}

func (f Forest) Clone() Forest {
	var out Forest
	for _, t := range f {
		out = append(out, t.Clone())
	}
	return out
}

// Merge collapses equally named siblings under one parent into the first occurrence, concatenating their children in
// order, recursively. Roots are never merged (the statement says "under one parent").
func Merge(f Forest) Forest {
	var out Forest
	for _, r := range f {
		out = append(out, mergeNode(r))
	}
	return out
}

func mergeNode(t *T) *T {
	n := &T{Name: t.Name}
	n.Kids = mergeKids(t.Kids)
	return n
}

func mergeKids(kids []*T) []*T {
	var order []string
	groups := map[string][]*T{}
	for _, k := range kids {
		if _, ok := groups[k.Name]; !ok {
			order = append(order, k.Name)
		}
		groups[k.Name] = append(groups[k.Name], k.Kids...)
	}
	var out []*T
	for _, name := range order {
		out = append(out, &T{Name: name, Kids: mergeKids(groups[name])})
	}
	return out
}

func (t *T) Count() int {
	n := 1
	for _, k := range t.Kids {
		n += k.Count()
	}
	return n
}

func (f Forest) Count() int {
	n := 0
	for _, t := range f {
		n += t.Count()
	}
	return n
}

func (t *T) Depth() int {
	d := 0
	for _, k := range t.Kids {
		if kd := k.Depth(); kd > d {
			d = kd
		}
	}
	return d + 1
}

func (f Forest) Depth() int {
	d := 0
	for _, t := range f {
		if td := t.Depth(); td > d {
			d = td
		}
	}
	return d
}

// HasMerge reports whether Merge changes the forest (some parent has two equally named children).
func (f Forest) HasMerge() bool { return f.Count() != Merge(f).Count() }

func Equal(a, b *T) bool {
	if a.Name != b.Name || len(a.Kids) != len(b.Kids) {
		return false
	}
	for i := range a.Kids {
		if !Equal(a.Kids[i], b.Kids[i]) {
			return false
		}
	}
	return true
}

func EqualForest(a, b Forest) bool {
	if len(a) != len(b) {
		return false
	}
	for i := range a {
		if !Equal(a[i], b[i]) {
			return false
		}
	}
	return true
}

// String gives a compact one-line notation: name(kid kid ...)
func (t *T) String() string {
	var sb strings.Builder
	t.str(&sb)
	return sb.String()
}

func (t *T) str(sb *strings.Builder) {
	sb.WriteString(strconvQuote(t.Name))
	if len(t.Kids) > 0 {
		sb.WriteString("(")
		for i, k := range t.Kids {
			if i > 0 {
				sb.WriteString(" ")
			}
			k.str(sb)
		}
		sb.WriteString(")")
	}
}

func (f Forest) String() string {
	var parts []string
	for _, t := range f {
		parts = append(parts, t.String())
	}
	return strings.Join(parts, " ")
}

func strconvQuote(s string) string {
	simple := s != ""
	for _, r := range s {
		if !(r >= 'a' && r <= 'z' || r >= 'A' && r <= 'Z' || r >= '0' && r <= '9' || r == '.' || r == '_') {
			simple = false
		}
	}
	if simple {
		return s
	}
	return quote(s)
}

// Walk calls fn in pre-order with depth (roots 1) and the chain of ancestors (root first, including the node).
func (f Forest) Walk(fn func(root int, chain []*T)) {
	for i, r := range f {
		walk(i, []*T{r}, fn)
	}
}

func walk(root int, chain []*T, fn func(int, []*T)) {
	fn(root, chain)
	cur := chain[len(chain)-1]
	for _, k := range cur.Kids {
		walk(root, append(append([]*T{}, chain...), k), fn)
	}
}

// Names returns all names in pre-order.
func (f Forest) Names() []string {
	var out []string
	f.Walk(func(_ int, c []*T) { out = append(out, c[len(c)-1].Name) })
	return out
}
