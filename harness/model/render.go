package model

import (
	"strconv"
	"strings"
)

func quote(s string) string { return strconv.Quote(s) }

// Branch is the four-tuple of branch strings: connector ("directly") and continuation ("indirectly") for intermediate
// and last nodes.
type Branch struct {
	MidD  string `json:"midD"`
	MidI  string `json:"midI"`
	LastD string `json:"lastD"`
	LastI string `json:"lastI"`
}

var DefaultBranch = Branch{MidD: "├──", MidI: "│   ", LastD: "└──", LastI: "    "}

// Fact is what the statement of C05 says a walk must report for one node.
type Fact struct {
	Root     int    `json:"root"`
	Row      string `json:"row"`
	Branch   string `json:"branch"`
	Name     string `json:"name"`
	Level    int    `json:"level"`
	Path     string `json:"path"`
	HasChild bool   `json:"hasChild"`
}

// Render draws an (already merged) forest by the rule of C01: a root's line is its name; any other line is, for each
// ancestor strictly below the root taken top-down, that ancestor's continuation string (last or intermediate), then the
// node's own connector chosen the same way, one space and the name.
func Render(f Forest, b Branch) (string, []Fact) {
	var sb strings.Builder
	var facts []Fact
	for i, r := range f {
		facts = append(facts, Fact{Root: i, Row: r.Name, Name: r.Name, Level: 1, Path: r.Name, HasChild: len(r.Kids) > 0})
		sb.WriteString(r.Name)
		sb.WriteString("\n")
		renderKids(&sb, &facts, i, r, "", r.Name, 2, b)
	}
	return sb.String(), facts
}

func renderKids(sb *strings.Builder, facts *[]Fact, root int, parent *T, prefix, ppath string, level int, b Branch) {
	for i, k := range parent.Kids {
		last := i == len(parent.Kids)-1
		conn, cont := b.MidD, b.MidI
		if last {
			conn, cont = b.LastD, b.LastI
		}
		br := prefix + conn
		row := br + " " + k.Name
		p := ppath + "/" + k.Name
		*facts = append(*facts, Fact{Root: root, Row: row, Branch: br, Name: k.Name, Level: level, Path: p, HasChild: len(k.Kids) > 0})
		sb.WriteString(row)
		sb.WriteString("\n")
		renderKids(sb, facts, root, k, prefix+cont, p, level+1, b)
	}
}

// RenderBlocks renders each root separately (used to cut outputs into per-root blocks).
func RenderBlocks(f Forest, b Branch) []string {
	var out []string
	for _, r := range f {
		s, _ := Render(Forest{r}, b)
		out = append(out, s)
	}
	return out
}

// IsFile is the kind rule of C06: a childless node whose name ends with a configured extension is a regular file.
func IsFile(t *T, exts []string) bool {
	if len(t.Kids) > 0 {
		return false
	}
	for _, e := range exts {
		if strings.HasSuffix(t.Name, e) {
			return true
		}
	}
	return false
}

// CountKinds returns the numbers of directories and files a root stands for under the kind rule.
func CountKinds(t *T, exts []string) (dirs, files int) {
	if IsFile(t, exts) {
		files++
	} else {
		dirs++
	}
	for _, k := range t.Kids {
		d, f := CountKinds(k, exts)
		dirs += d
		files += f
	}
	return
}

// DryRunReport is the report of C09 for a merged forest (colour off): per root the tree text, a newline and the counts.
func DryRunReport(f Forest, b Branch, exts []string) []string {
	var out []string
	for _, r := range f {
		s, _ := Render(Forest{r}, b)
		d, fl := CountKinds(r, exts)
		out = append(out, s+"\n"+strconv.Itoa(d)+" directories, "+strconv.Itoa(fl)+" files\n")
	}
	return out
}
