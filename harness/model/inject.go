package model

import "strings"

// Malformation classes of C02, each constructed so that the resulting document is malformed by the statement
// whatever else it contains. They are injected, never recognised.
const (
	InjNoBullet   = "no-bullet"       // the bullet byte is replaced by 'x'
	InjEmptyText  = "empty-text"      // line cut to indent+bullet(+" ")
	InjNotMult    = "indent-not-mult" // indentation k*unit+r, 0<r<unit, after the unit is defined
	InjMixed      = "indent-mixed"    // one indent character replaced by the other kind
	InjJump       = "level-jump"      // >= 1 extra unit beyond previous level + 1
	InjBeforeRoot = "item-before-root"
)

// NoBulletMarks replace the bullet in the no-bullet class (none of them contains '-', '*' or '+').
var NoBulletMarks = []string{"x", "#", "##", "~", ">", "1.", "\u2022", "_", "\u2013", "=", "o"}

var InjClasses = []string{InjNoBullet, InjEmptyText, InjNotMult, InjMixed, InjJump, InjBeforeRoot}

// Injection describes one malformation; Variant selects among sub-forms (e.g. with/without trailing blank).
type Injection struct {
	Class   string `json:"class"`
	Line    int    `json:"line"` // index among the non-blank lines
	Variant int    `json:"variant"`
}

// Applicable reports whether inj can be applied to the spelled lines; if so Inject returns the new lines and the row
// (line as written, without EOL) that a format error must name ("" when the statement only requires some error).
func Inject(lines []Line, sp Spelling, inj Injection) (out []Line, row string, ok bool) {
	idx := itemIndexes(lines)
	if inj.Class == InjBeforeRoot {
		if len(idx) == 0 {
			return nil, "", false
		}
		ind := strings.Repeat(sp.indentChar(), sp.unit()*(1+inj.Variant%2))
		nl := Line{Indent: ind, Bullet: "-", Gap: " ", Name: "x", EOL: "\n", Level: 2}
		out = append(out, lines[:idx[0]]...)
		out = append(out, nl)
		out = append(out, lines[idx[0]:]...)
		return out, "", true
	}
	if inj.Line < 0 || inj.Line >= len(idx) {
		return nil, "", false
	}
	at := idx[inj.Line]
	out = append([]Line{}, lines...)
	l := out[at]
	firstIndented := -1
	for _, i := range idx {
		if len(lines[i].Indent) > 0 {
			firstIndented = i
			break
		}
	}
	switch inj.Class {
	case InjNoBullet:
		// something that is not a list bullet takes the bullet's place; '#' only counts as "no bullet" on an indented
		// line (at column 0 it would be a heading)
		repl := NoBulletMarks[inj.Variant%len(NoBulletMarks)]
		if strings.HasPrefix(repl, "#") && len(l.Indent) == 0 {
			repl = "x"
		}
		l.Bullet = repl
		out[at] = l
		return out, l.Raw(), true
	case InjEmptyText:
		l.Name = ""
		if inj.Variant%2 == 0 {
			l.Gap = ""
		}
		out[at] = l
		return out, "", true
	case InjNotMult:
		if sp.unit() < 2 || firstIndented < 0 || at <= firstIndented || strings.HasPrefix(l.Bullet, "#") {
			return nil, "", false
		}
		r := 1 + inj.Variant%(sp.unit()-1)
		l.Indent += strings.Repeat(sp.indentChar(), r)
		out[at] = l
		return out, l.Raw(), true
	case InjMixed:
		if len(l.Indent) < 2 {
			return nil, "", false
		}
		pos := inj.Variant % len(l.Indent)
		other := "\t"
		if sp.Tab {
			other = " "
		}
		l.Indent = l.Indent[:pos] + other + l.Indent[pos+1:]
		out[at] = l
		return out, l.Raw(), true
	case InjJump:
		if firstIndented < 0 || at <= firstIndented || strings.HasPrefix(l.Bullet, "#") || inj.Line == 0 {
			return nil, "", false
		}
		prev := lines[idx[inj.Line-1]]
		extra := 1 + inj.Variant%2
		depth := prev.Level + 1 + extra - 1 // indent units for level prev.Level+1+extra
		if sp.Heading && l.Root >= sp.HeadingFrom {
			depth--
		}
		if depth < 1 {
			return nil, "", false
		}
		l.Indent = strings.Repeat(sp.indentChar(), depth*sp.unit())
		out[at] = l
		return out, "", true
	}
	return nil, "", false
}

func itemIndexes(lines []Line) []int {
	var idx []int
	for i, l := range lines {
		if !l.Blank {
			idx = append(idx, i)
		}
	}
	return idx
}

// ItemCount is the number of non-blank lines.
func ItemCount(lines []Line) int { return len(itemIndexes(lines)) }
