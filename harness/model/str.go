package model

import (
	"encoding/hex"
	"encoding/json"
	"strings"
	"unicode/utf8"
)

// JSON cannot carry strings that are not valid UTF-8 (encoding/json replaces the bytes with U+FFFD). Names may be
// arbitrary bytes, so everything that travels as JSON (worker protocol, replay files) encodes such strings losslessly.
const hexPrefix = "\x00hex:"

func EncStr(s string) string {
	if utf8.ValidString(s) && !strings.HasPrefix(s, hexPrefix) {
		return s
	}
	return hexPrefix + hex.EncodeToString([]byte(s))
}

func DecStr(s string) string {
	if strings.HasPrefix(s, hexPrefix) {
		if b, err := hex.DecodeString(s[len(hexPrefix):]); err == nil {
			return string(b)
		}
	}
	return s
}

func EncStrs(in []string) []string {
	if in == nil {
		return nil
	}
	out := make([]string, len(in))
	for i, s := range in {
		out[i] = EncStr(s)
	}
	return out
}

func DecStrs(in []string) []string {
	if in == nil {
		return nil
	}
	out := make([]string, len(in))
	for i, s := range in {
		out[i] = DecStr(s)
	}
	return out
}

type tJSON struct {
	N string `json:"n"`
	K []*T   `json:"k,omitempty"`
}

func (t *T) MarshalJSON() ([]byte, error) {
	return json.Marshal(tJSON{N: EncStr(t.Name), K: t.Kids})
}

func (t *T) UnmarshalJSON(b []byte) error {
	var j tJSON
	if err := json.Unmarshal(b, &j); err != nil {
		return err
	}
	t.Name, t.Kids = DecStr(j.N), j.K
	return nil
}
