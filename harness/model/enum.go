package model

// EnumShapes calls fn for every ordered forest with exactly n nodes (names empty).
func EnumShapes(n int, fn func(Forest)) {
	for _, f := range forestsOf(n) {
		fn(f)
	}
}

var forestMemo = map[int][]Forest{}

// forestsOf returns all ordered forests with exactly n nodes. A forest with n nodes is a first tree with k nodes
// (a root over a forest of k-1 nodes) followed by a forest of n-k nodes.
func forestsOf(n int) []Forest {
	if n == 0 {
		return []Forest{nil}
	}
	if m, ok := forestMemo[n]; ok {
		return m
	}
	var out []Forest
	for k := 1; k <= n; k++ {
		for _, kids := range forestsOf(k - 1) {
			for _, rest := range forestsOf(n - k) {
				f := Forest{&T{Kids: kids}}
				f = append(f, rest...)
				out = append(out, f)
			}
		}
	}
	forestMemo[n] = out
	return out
}

// EnumForests calls fn for every ordered forest with 1..maxNodes nodes and every assignment of names from alphabet.
// The forest passed to fn is freshly allocated.
func EnumForests(maxNodes int, alphabet []string, fn func(Forest)) {
	for n := 1; n <= maxNodes; n++ {
		for _, shape := range forestsOf(n) {
			assign := make([]int, n)
			for {
				f := shape.Clone()
				i := 0
				f.Walk(func(_ int, c []*T) { c[len(c)-1].Name = alphabet[assign[i]]; i++ })
				fn(f)
				// next assignment
				j := 0
				for j < n {
					assign[j]++
					if assign[j] < len(alphabet) {
						break
					}
					assign[j] = 0
					j++
				}
				if j == n {
					break
				}
			}
		}
	}
}

// EnumTrees is EnumForests restricted to single-root forests.
func EnumTrees(maxNodes int, alphabet []string, fn func(*T)) {
	EnumForests(maxNodes, alphabet, func(f Forest) {
		if len(f) == 1 {
			fn(f[0])
		}
	})
}
