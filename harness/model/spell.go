package model

import (
	"strings"
	"unicode/utf8"
)

// Spelling selects one member of the notation family of C15: indentation unit of tabs or a fixed number of spaces,
// bullet symbol per line, roots as # headings, blank / whitespace-only lines, LF or CRLF per line, final newline.
// All per-line choices are cyclic sequences so that a Spelling is a small value that shrinks well.
type Spelling struct {
	Tab         bool   `json:"tab,omitempty"`
	Unit        int    `json:"unit"`                  // indent characters per level (>=1)
	Bullets     string `json:"bullets,omitempty"`     // cycled per item line; chars from "-*+" ("" = "-")
	Heading     bool   `json:"heading,omitempty"`     // roots written as # headings
	HeadingFrom int    `json:"headingFrom,omitempty"` // with Heading: the first HeadingFrom roots are still written as list items (the mixed notation: list roots first, heading roots after them)
	NoGap       []bool `json:"noGap,omitempty"`       // per item (cycled): the optional blank between the bullet and the name is left out ("-name"); only where the name does not start with a blank. List items only. NOT part of C15's notation family.
	Hashes      []int  `json:"hashes,omitempty"`      // cycled per root: number of '#' (1..3)
	Blank       []int  `json:"blank,omitempty"`       // cycled per item line: index into BlankTable put before the line (0 none)
	Trail       int    `json:"trail,omitempty"`       // index into BlankTable for one blank line at the end (0 none)
	CRLF        []bool `json:"crlf,omitempty"`        // cycled per physical line
	NoFinalN    bool   `json:"noFinalNL,omitempty"`
}

// BlankTable lists the blank-line spellings (index 0 = no blank line).
var BlankTable = []string{"", "", " ", "\t", "  \t ", "    ", "\n", " \n\t", "\u3000", "\u00a0 \t", "\u0085"}

// Line is one physical line of a spelled document.
type Line struct {
	Blank  bool   // blank / whitespace-only line; Text holds it
	Text   string // for blank lines
	Indent string
	Bullet string // "-", "*", "+", or "#", "##", "###"
	Gap    string // what separates bullet and name (" ")
	Name   string
	EOL    string // "\n", "\r\n" or "" (last line without final newline)
	Level  int    // depth of the node, roots 1
	Root   int    // index of the root this line belongs to
}

func (l Line) Raw() string {
	if l.Blank {
		return l.Text
	}
	return l.Indent + l.Bullet + l.Gap + l.Name
}

func Join(lines []Line) string {
	var sb strings.Builder
	for _, l := range lines {
		sb.WriteString(l.Raw())
		sb.WriteString(l.EOL)
	}
	return sb.String()
}

func (sp Spelling) indentChar() string {
	if sp.Tab {
		return "\t"
	}
	return " "
}

func (sp Spelling) unit() int {
	if sp.Unit < 1 {
		return 1
	}
	return sp.Unit
}

// SpellLines writes the (unmerged) forest in the given spelling.
func SpellLines(f Forest, sp Spelling) []Line {
	var lines []Line
	item := 0
	phys := 0
	eol := func() string {
		e := "\n"
		if len(sp.CRLF) > 0 && sp.CRLF[phys%len(sp.CRLF)] {
			e = "\r\n"
		}
		phys++
		return e
	}
	addBlank := func(idx int) {
		if idx <= 0 || idx >= len(BlankTable) {
			return
		}
		for _, part := range strings.Split(BlankTable[idx], "\n") {
			lines = append(lines, Line{Blank: true, Text: part, EOL: eol()})
		}
	}
	f.Walk(func(root int, chain []*T) {
		level := len(chain)
		n := chain[level-1]
		if len(sp.Blank) > 0 {
			addBlank(sp.Blank[item%len(sp.Blank)])
		}
		l := Line{Name: n.Name, Gap: " ", Level: level, Root: root}
		if sp.Heading && level == 1 && root >= sp.HeadingFrom {
			h := 1
			if len(sp.Hashes) > 0 {
				h = sp.Hashes[root%len(sp.Hashes)]
				if h < 1 {
					h = 1
				}
			}
			l.Bullet = strings.Repeat("#", h)
		} else {
			b := byte('-')
			if len(sp.Bullets) > 0 {
				b = sp.Bullets[item%len(sp.Bullets)]
			}
			l.Bullet = string(b)
			depth := level - 1
			if sp.Heading && root >= sp.HeadingFrom {
				depth = level - 2
			}
			l.Indent = strings.Repeat(sp.indentChar(), depth*sp.unit())
		}
		if len(sp.NoGap) > 0 && sp.NoGap[item%len(sp.NoGap)] && !strings.HasPrefix(l.Bullet, "#") && !strings.HasPrefix(n.Name, " ") {
			l.Gap = ""
		}
		l.EOL = eol()
		lines = append(lines, l)
		item++
	})
	addBlank(sp.Trail)
	if sp.NoFinalN && len(lines) > 0 {
		lines[len(lines)-1].EOL = ""
	}
	return lines
}

func Spell(f Forest, sp Spelling) string { return Join(SpellLines(f, sp)) }

// Plain2 is the canonical spelling used wherever the spelling is not the subject.
var Plain2 = Spelling{Unit: 2}

// Panel is the fixed set of spellings crossed with the bounded-exhaustive forests.
var Panel = []Spelling{
	{Unit: 2},
	{Tab: true, Unit: 1},
	{Unit: 7, Bullets: "-*+"},
	{Unit: 4, Heading: true, Hashes: []int{1, 2, 3}, Bullets: "*-"},
	{Unit: 3, CRLF: []bool{true}, Blank: []int{0, 1, 0, 4}, Trail: 2, Bullets: "+"},
	{Tab: true, Unit: 2, NoFinalN: true, Blank: []int{3, 0}},
}

// NameOKForItem tells whether name can be written as the text of a list item and read back unchanged: non-empty,
// one line, not ending in CR (a trailing CR is indistinguishable from a CRLF line ending).
func NameOKForItem(name string) bool {
	if name == "" || strings.ContainsAny(name, "\n") || strings.HasSuffix(name, "\r") {
		return false
	}
	return true
}

// NameOKForHeading: additionally the heading notation gives no way to write leading/trailing spaces. (A leading '#' is
// fine: the speller always puts a blank between the heading marker and the name, "# #include".)
func NameOKForHeading(name string) bool {
	if !NameOKForItem(name) {
		return false
	}
	if strings.HasPrefix(name, " ") || strings.HasSuffix(name, " ") {
		return false
	}
	// a heading whose text is only blanks is not a heading with a name
	return strings.TrimSpace(name) != ""
}

func (f Forest) AllNames(ok func(string) bool) bool {
	good := true
	f.Walk(func(_ int, c []*T) {
		if !ok(c[len(c)-1].Name) {
			good = false
		}
	})
	return good
}

// HeadingOK reports whether the forest can be spelled with heading roots.
func (f Forest) HeadingOK() bool {
	for _, r := range f {
		if !NameOKForHeading(r.Name) {
			return false
		}
	}
	return true
}

// ValidElem reports whether name is beyond doubt a single valid path element (so that name validation must accept it).
func ValidElem(name string) bool {
	if name == "" || name == "." || name == ".." || strings.ContainsAny(name, "/\x00\n") || len(name) > 255 {
		return false
	}
	return utf8.ValidString(name)
}
